package scenario

import (
	"encoding/json"
	"fmt"
	"strings"

	"ionsim/drive"
	"ionsim/model"
	"ionsim/prng"
	"ionsim/ref"
	"ionsim/render"
	"ionsim/sim"
)

// navigate decides C08: what a Reader returns does not depend on how the caller navigated.
type navigate struct{}

func init() { Register(navigate{}) }

func (navigate) Property() string { return "C08" }
func (navigate) Name() string     { return "navigate" }
func (navigate) Level() string    { return "exploration" }
func (navigate) Indices(tier string) int {
	if tier == "thorough" {
		return 400000
	}
	return 30000
}
func (navigate) Rule() string {
	return "Per run index: one seeded valid document (text or binary, independent renderer with swarm spelling/encoding choices) whose " +
		"reference trace is ion-go's own plain full traversal over whole delivery (documents that traversal rejects are counted and " +
		"skipped). Then a fixed family of navigation programs (skip everything at top level; skip every container; step out after k " +
		"children for k=0..3; leave every scalar unread; refused calls everywhere) plus seeded random programs, each executed under whole " +
		"delivery and under a seeded chunked delivery plan, and compared call by call with a reference cursor walking the reference " +
		"tree with the same program. A case is distinct by hash of (document bytes, program, delivery schedule); non-trivial = the " +
		"program skips, leaves unread, steps out early or issues a refused call at least once on a document with at least one container or two values."
}
func (navigate) Assumptions() []string {
	return []string{
		"the reference is ion-go's own plain traversal (self-referential by design: the property says 'identical to a plain full traversal')",
		"symbol tokens are compared by text, then by SID when text is unknown",
		"refused calls may return an error or nil; only their effect on later observations is checked",
	}
}
func (navigate) Components() map[string]string {
	return map[string]string{
		"ion package (Reader, tokenizer, skipper, bitstream)": "real code from /repo working tree",
		"io.Reader under the Reader":                          "stub: sim.Source (seeded delivery plan, no failures)",
		"reference cursor":                                    "ionsim model: walks the tree of ion-go's own full traversal",
	}
}

type navCase struct {
	Read drive.ReadCase `json:"read"`
}

// fixedPrograms is the deterministic family run on every document.
func fixedPrograms() []drive.Program {
	nav := func(ds ...drive.Decision) drive.Program { return drive.Program{Kind: "nav", Decisions: ds} }
	ps := []drive.Program{
		drive.TopSkip,
		nav(drive.Decision{Act: 1}), // skip every container, leave scalars
		nav(drive.Decision{Act: 0}, drive.Decision{Act: 1}),                         // alternate read / skip
		nav(drive.Decision{Act: 1}, drive.Decision{Act: 0}),                         // alternate skip / read
		nav(drive.Decision{Act: 2, K: 0}),                                           // step in, step out at once
		nav(drive.Decision{Act: 2, K: 1}),                                           // step out after one child
		nav(drive.Decision{Act: 2, K: 2}),                                           //
		nav(drive.Decision{Act: 2, K: 3}),                                           //
		nav(drive.Decision{Act: 0}, drive.Decision{Act: 2, K: 1}),                   // enter outer, leave inner early
		nav(drive.Decision{Act: 2, K: 2}, drive.Decision{Act: 1}),                   //
		nav(drive.Decision{Act: 0, Refused: 1 | 2 | 4 | 8}),                         // plain traversal with refused calls everywhere
		nav(drive.Decision{Act: 0, Refused: 16}),                                    // every wrong accessor
		nav(drive.Decision{Act: 0, Refused: 32}),                                    // every value read twice, descriptive calls repeated
		nav(drive.Decision{Act: 0, Refused: 32 | 16}, drive.Decision{Act: 2, K: 2}), //
		nav(drive.Decision{Act: 2, K: 1, Refused: 1 | 4 | 8 | 16}),                  //
		nav(drive.Decision{Act: 1, Refused: 1 | 2 | 4}),                             //
		nav(drive.Decision{Act: 0}, drive.Decision{Act: 0}, drive.Decision{Act: 1}), //
	}
	return ps
}

func isTrivialProg(p drive.Program) bool {
	if p.Kind == "full" {
		return true
	}
	for _, d := range p.Decisions {
		if d.Act != 0 || d.Refused != 0 {
			return false
		}
	}
	return p.Kind != "topskip"
}

func (s navigate) Run(c *Ctx, i int) {
	r := prng.New(prng.Mix(c.Seed, 8, uint64(i)))
	doc := genDocBig(r, i%2 == 0, 5, true)
	var cat *model.Catalog
	switch {
	case i%6 == 1:
		// a history of version markers, local symbol tables with imports, appends and values whose symbols are given by ID,
		// read with a catalog: what a navigation leaves behind in the symbol context must not depend on the navigation
		hr := r.Fork()
		cat, _ = genCatalog(hr.Fork())
		hbin := (i/6)%2 == 0
		ex := expectHistory(genHistory(hr.Fork(), cat, hbin), cat)
		if ex.valid && len(ex.items) > 0 {
			if hbin {
				doc = Doc{Format: "binary", Out: render.Binary(ex.items, render.BinOpts{})}
			} else {
				doc = Doc{Format: "text", Out: render.Text(ex.items, render.TextOpts{})}
			}
			c.Count("docs.symbol-table-history", 1)
		} else {
			cat = nil
		}
	case i%25 == 3:
		// a long stream of small records with empty containers and lobs, then nested containers (state a reader keeps over
		// many skipped values)
		var vals []*model.Value
		for k, n := 0, r.Range(130, 260); k < n; k++ {
			rec := model.NewSeq(model.Struct, model.NewInt(int64(k)).Named(model.T("id")), model.NewSeq(model.Struct).Named(model.T("tags")),
				model.NewLob(model.Blob, []byte{byte(k), 'h', 'i'}).Named(model.T("data")))
			if r.Chance(1, 5) {
				rec.Kids = append(rec.Kids, model.NewSeq(model.List).Named(model.T("more")), model.NewLob(model.Clob, []byte("c}")).Named(model.T("c")))
			}
			vals = append(vals, rec)
		}
		vals = append(vals, model.NewSeq(model.List, model.NewSeq(model.List, model.NewInt(1)), model.NewInt(2)), model.NewInt(3))
		if (i/25)%2 == 0 {
			doc = Doc{Values: vals, Format: "binary", Out: render.Binary(render.Values(vals), render.BinOpts{Auto: true})}
		} else {
			doc = Doc{Values: vals, Format: "text", Out: render.Text(render.Values(vals), render.SwarmText(r.Fork()))}
		}
		c.Count("docs.record-stream", 1)
	}
	data := doc.Out.Bytes
	base := drive.RunRead(drive.ReadCase{KeepSID: true, Data: data, Plan: planWhole(), Prog: drive.Full, Catalog: cat})
	c.Steps += int64(base.Reads)
	if base.Panic != "" || base.Spin {
		c.Count("docs.rejected-by-plain-traversal(skipped: C02/C03 matter)", 1)
		return
	}
	if base.Err != "" {
		// The plain traversal fails. Whether it should is not C08's matter — unless a navigation that merely skips values
		// gets through the same document cleanly: then what the reader returns does depend on how the caller navigated. The
		// clause is applied only to documents that the renderer produced as valid and the reference decoder accepts.
		c.Count("docs.rejected-by-plain-traversal(skipped: C02/C03 matter)", 1)
		var e *ref.Error
		if doc.Format == "binary" {
			_, e = ref.DecodeBinary(data, ref.Options{Catalog: cat})
		} else {
			_, e = ref.DecodeText(data, ref.Options{Catalog: cat})
		}
		if e != nil {
			return
		}
		for _, prog := range fixedPrograms()[:5] {
			rc := drive.ReadCase{KeepSID: true, Data: data, Plan: planWhole(), Prog: prog, Catalog: cat}
			oc := drive.RunRead(rc)
			c.Count("nav.runs", 1)
			if oc.Err == "" && oc.Panic == "" && !oc.Spin {
				c.Report("C08", "C08.E", "C08.E/"+doc.Format+"/plain-traversal-fails-skipping-does-not/"+errClass(base.Err),
					fmt.Sprintf("on a valid document the plain full traversal ends with %q (from %s) while a navigation that skips values reads it to the end without error (%d observations)", base.Err, base.ErrAt, len(oc.Lines)), navCase{Read: rc})
				break
			}
		}
		return
	}
	c.Count("docs."+doc.Format, 1)
	if i < 4 {
		c.Sample(map[string]interface{}{"index": i, "format": doc.Format, "bytes_hex": fmt.Sprintf("%x", data), "text": textOrEmpty(doc.Format, data), "program_example": navProgram(prng.New(uint64(i)))})
	}
	progs := fixedPrograms()
	nrand := 12
	pr := r.Fork()
	for j := 0; j < nrand; j++ {
		progs = append(progs, navProgram(pr))
	}
	dr := r.Fork()
	nontrivialDoc := len(base.Tree) >= 2 || strings.Contains(base.Key(), "|container")
	for _, prog := range progs {
		want := drive.Expected(base.Tree, prog)
		plans := []sim.ReadPlan{planWhole()}
		switch dr.Intn(3) {
		case 0:
			if len(data) > 20000 {
				// a long document one byte at a time costs more than it can tell: chunks of a few hundred bytes instead
				p := planRandom(dr, 64, false)
				p.Tail = dr.Range(100, 5000)
				plans = append(plans, p)
			} else {
				plans = append(plans, planBytes())
			}
		case 1:
			plans = append(plans, planRandom(dr, len(data), dr.Bool()))
		default:
			plans = append(plans, planBiased(dr, data, doc.Out.Map))
		}
		for _, p := range plans {
			rc := drive.ReadCase{KeepSID: true, Data: data, Plan: p, Prog: prog, Catalog: cat}
			oc := drive.RunRead(rc)
			c.Steps += int64(oc.Reads)
			c.Count("nav.runs", 1)
			if nontrivialDoc && !isTrivialProg(prog) {
				c.DistinctU(hashRead(data, oc.SrcHash, prog))
			}
			s.check(c, rc, oc, want)
		}
	}
}

// errClass reduces an error message to a stable class: digits and quoted fragments removed.
func errClass(msg string) string {
	var sb strings.Builder
	inq := false
	for i := 0; i < len(msg); i++ {
		ch := msg[i]
		if ch == '\'' {
			inq = !inq
			sb.WriteByte('\'')
			continue
		}
		if inq {
			continue
		}
		if ch >= '0' && ch <= '9' {
			if sb.Len() > 0 && sb.String()[sb.Len()-1] == '#' {
				continue
			}
			sb.WriteByte('#')
			continue
		}
		sb.WriteByte(ch)
	}
	s := sb.String()
	if len(s) > 70 {
		s = s[:70]
	}
	return s
}

func (s navigate) check(c *Ctx, rc drive.ReadCase, oc *drive.Outcome, want []string) {
	fm := format(rc.Data)
	cs := navCase{Read: rc}
	if oc.Panic != "" {
		c.Report("C08", "C08.P", "C08.P/"+fm+"/"+oc.Frame+"/"+drive.PanicClass(oc.Panic), "panic during navigation: "+oc.Panic, cs)
		return
	}
	if oc.Spin {
		c.Report("C08", "C08.L", "C08.L/"+fm, "reader keeps calling Read after end of data", cs)
		return
	}
	got := oc.Lines
	n := len(got)
	if len(want) < n {
		n = len(want)
	}
	for k := 0; k < n; k++ {
		if got[k] != want[k] {
			clause := "C08.T"
			if strings.HasSuffix(got[k], "|end") || strings.HasSuffix(want[k], "|end") {
				clause = "C08.N"
			}
			c.Report("C08", clause, clause+"/"+fm+"/"+errClass(oc.Err), fmt.Sprintf("observation %d differs from the reference cursor: got %q want %q (reader error: %q at %s)", k, got[k], want[k], oc.Err, oc.ErrAt), cs)
			return
		}
	}
	if oc.Err != "" {
		c.Report("C08", "C08.E", "C08.E/"+fm+"/"+oc.ErrAt+"/"+errClass(oc.Err), fmt.Sprintf("navigation ended with error %q (from %s) after %d matching observations; the plain traversal of the same document has none", oc.Err, oc.ErrAt, len(got)), cs)
		return
	}
	if len(got) != len(want) {
		c.Report("C08", "C08.N", "C08.N/"+fm+"/length", fmt.Sprintf("navigation produced %d observations, reference cursor %d", len(got), len(want)), cs)
	}
}

func (s navigate) Replay(c *Ctx, caseJSON []byte) error {
	var cs navCase
	if err := json.Unmarshal(caseJSON, &cs); err != nil {
		return err
	}
	base := drive.RunRead(drive.ReadCase{KeepSID: true, Data: cs.Read.Data, Plan: planWhole(), Prog: drive.Full, Catalog: cs.Read.Catalog, SimCatalog: cs.Read.SimCatalog})
	if base.Panic != "" || base.Spin {
		return nil // not a C08 case
	}
	if base.Err != "" {
		// the valid-document clause: plain traversal fails, this navigation does not
		var e *ref.Error
		if format(cs.Read.Data) == "binary" {
			_, e = ref.DecodeBinary(cs.Read.Data, ref.Options{Catalog: cs.Read.Catalog})
		} else {
			_, e = ref.DecodeText(cs.Read.Data, ref.Options{Catalog: cs.Read.Catalog})
		}
		if e != nil {
			return nil
		}
		oc := drive.RunRead(cs.Read)
		if oc.Err == "" && oc.Panic == "" && !oc.Spin {
			c.Report("C08", "C08.E", "C08.E/"+format(cs.Read.Data)+"/plain-traversal-fails-skipping-does-not/"+errClass(base.Err),
				fmt.Sprintf("on a valid document the plain full traversal ends with %q while this navigation reads it to the end without error", base.Err), cs)
		}
		return nil
	}
	oc := drive.RunRead(cs.Read)
	s.check(c, cs.Read, oc, drive.Expected(base.Tree, cs.Read.Prog))
	return nil
}

func (s navigate) Shrink(caseJSON []byte) [][]byte {
	var cs navCase
	if json.Unmarshal(caseJSON, &cs) != nil {
		return nil
	}
	var out [][]byte
	for _, rc := range shrinkRead(cs.Read) {
		if b, err := json.Marshal(navCase{Read: rc}); err == nil {
			out = append(out, b)
		}
	}
	return out
}

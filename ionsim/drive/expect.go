package drive

import (
	"fmt"
	"strconv"
	"strings"

	"ionsim/model"
)

func symStr(s model.Sym) string {
	if s.HasText {
		return strconv.Quote(s.Text)
	}
	return "$" + strconv.FormatInt(s.SID, 10)
}

// ModelLines is the trace a plain full traversal must produce for model values restricted to the kinds
// whose canonical rendering does not depend on ion-go types: null, bool, symbol, string, lobs, containers.
// It is the model-side expectation used by the symbol-context scenario.
func ModelLines(vals []*model.Value) []string {
	var out []string
	var walk func(vs []*model.Value, depth int)
	walk = func(vs []*model.Value, depth int) {
		for _, v := range vs {
			o := Obs{Depth: depth, Type: v.Kind.String(), Null: v.IsNull || v.Kind == model.Null}
			if v.Field != nil {
				o.Field = symStr(*v.Field)
			}
			if len(v.Annots) > 0 {
				parts := make([]string, len(v.Annots))
				for i, a := range v.Annots {
					parts[i] = symStr(a)
				}
				o.Annots = strings.Join(parts, ",")
			}
			cont := v.Kind.IsContainer() && !o.Null
			switch {
			case cont:
				o.Val = "container"
			case v.Kind == model.Null:
				o.Val = "null"
			case o.Null:
				o.Val = "nil"
			case v.Kind == model.Bool:
				o.Val = strconv.FormatBool(v.Bool)
			case v.Kind == model.Symbol:
				o.Val = symStr(*v.Sym)
			case v.Kind == model.String:
				o.Val = strconv.Quote(v.Str)
			case v.Kind == model.Clob || v.Kind == model.Blob:
				o.Val = fmt.Sprintf("%x", v.Bytes)
			default:
				o.Val = "?unsupported-kind"
			}
			out = append(out, o.Line(true))
			if cont {
				walk(v.Kids, depth+1)
			}
		}
		out = append(out, fmt.Sprintf("%d|end", depth))
	}
	walk(vals, 0)
	return out
}

package sim

import "fmt"

// Sched is the seeded task scheduler of the concurrent scenario (C18, part A). Caller tasks are real
// goroutines, but each one is parked on its own channel and exactly one runs at any time; every seam call
// (Source.Read, Sink.Write, catalog lookup) is a yield point at which the scheduler — never the Go runtime —
// decides who runs next. One pick list is one interleaving.
type Sched struct {
	// Pick chooses the next task among runnable (sorted task ids); step is the 0-based decision number and
	// last the task that ran before (-1 at the start).
	Pick func(step int, runnable []int, last int) int
	// AtYield, if set, runs on the scheduler goroutine while every task is parked: after task has yielded at
	// seam (or finished: seam == "done").
	AtYield func(step int, task int, seam string)

	// Picks is the explicit list of decisions taken (the interleaving).
	Picks []int
	// Yields counts yield points per task.
	Yields []int
	// Switches counts decisions that moved to another task while the previous one was still runnable.
	Switches int
}

type schedEvent struct {
	task  int
	seam  string
	done  bool
	panic interface{}
}

// TaskPanic is what Run reports for a task that panicked.
type TaskPanic struct {
	Task  int
	Value interface{}
}

// Run executes the tasks to completion under the scheduler. Each task receives its own yield function.
// The returned slice holds, per task, the recovered panic value (nil if the task returned normally).
func (s *Sched) Run(tasks []func(yield func(seam string))) []interface{} {
	n := len(tasks)
	events := make(chan schedEvent)
	resume := make([]chan struct{}, n)
	done := make([]bool, n)
	panics := make([]interface{}, n)
	s.Yields = make([]int, n)
	for i := range tasks {
		resume[i] = make(chan struct{})
		i := i
		go func() {
			<-resume[i]
			defer func() {
				p := recover()
				events <- schedEvent{task: i, done: true, panic: p}
			}()
			tasks[i](func(seam string) {
				events <- schedEvent{task: i, seam: seam}
				<-resume[i]
			})
		}()
	}
	last := -1
	left := n
	for step := 0; left > 0; step++ {
		runnable := make([]int, 0, n)
		for i := 0; i < n; i++ {
			if !done[i] {
				runnable = append(runnable, i)
			}
		}
		next := s.Pick(step, runnable, last)
		ok := false
		for _, r := range runnable {
			if r == next {
				ok = true
			}
		}
		if !ok {
			panic(fmt.Sprintf("sim.Sched: pick %d is not runnable %v", next, runnable))
		}
		if last >= 0 && next != last && !done[last] {
			s.Switches++
		}
		s.Picks = append(s.Picks, next)
		resume[next] <- struct{}{}
		ev := <-events
		if ev.task != next {
			panic(fmt.Sprintf("sim.Sched: event from task %d while task %d was running", ev.task, next))
		}
		seam := ev.seam
		if ev.done {
			done[next] = true
			panics[next] = ev.panic
			left--
			seam = "done"
		} else {
			s.Yields[next]++
		}
		last = next
		if s.AtYield != nil {
			s.AtYield(step, next, seam)
		}
	}
	return panics
}

// ExplicitPicks replays a recorded pick list; when the list is exhausted or names a task that is not
// runnable, the lowest runnable task is taken (and Diverged is set when that happens before the end).
type ExplicitPicks struct {
	List     []int
	Diverged bool
}

func (e *ExplicitPicks) Pick(step int, runnable []int, last int) int {
	if step < len(e.List) {
		for _, r := range runnable {
			if r == e.List[step] {
				return r
			}
		}
		e.Diverged = true
	}
	return runnable[0]
}

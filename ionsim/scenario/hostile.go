package scenario

import (
	"encoding/json"
	"fmt"
	"strings"

	"ionsim/drive"
	"ionsim/gen"
	"ionsim/model"
	"ionsim/prng"
	"ionsim/render"
	"ionsim/sim"
)

// hostile decides C06: no input can crash, hang or exhaust memory in a Reader, Decoder or Unmarshal.
type hostile struct{}

func init() { Register(hostile{}) }

func (hostile) Property() string { return "C06" }
func (hostile) Name() string     { return "hostile" }
func (hostile) Level() string    { return "exploration" }
func (hostile) Indices(tier string) int {
	if tier == "thorough" {
		return 900000
	}
	return 60000
}
func (hostile) Rule() string {
	return "Per run index: a stored stream that the medium or its producer damaged — a valid seeded document (text or binary), or a " +
		"hostile-producer document (symbol-table structs with typed nulls / wrong types / extreme numbers in every slot, $n and $0 " +
		"symbols, huge IDs), or a stream of correctly framed binary values whose fields take extreme values (decimal and timestamp-fraction " +
		"exponents and coefficients up to 2^64, calendar fields, symbol / field / annotation IDs, import max_id and version), hit by 0..3 stored-medium faults (bit flip, byte set, zeroed / dropped / duplicated / spliced block, " +
		"truncation, and length / exponent / ID fields replaced by boundary values 0, 1, 13, 14, 127, 128, 2^14, 2^31-1, 2^31, 2^63, " +
		"2^64-1 through the byte map; for one binary document in three, every nested container length moved by plus and minus one, read by a traversal and six navigating callers) — plus, by enumeration, all byte strings of length <= 3 over a 24-byte alphabet of tag bytes and " +
		"punctuation (complete once 1804 indices have run). Each stream is driven by: two seeded random call sequences (<= 200 calls over " +
		"all 21 Reader methods, then a drain), a traversal using IntValue, three seeded navigating traversals (skip / enter / leave early per container), Decoder.Decode to exhaustion, and Decoder.DecodeTo into " +
		"seeded members of a zoo of 68 Go target types (named key, byte and int types, embedded pointers to unexported structs, nested pointers, unsupported kinds), each under whole or chunked simulated delivery. Watchdogs: panic, reads after " +
		"end of data, more values than bytes, allocation over 32 MiB + 4 KiB x input length, worker death (write-ahead + isolated re-run), " +
		"wall-clock stall. Distinct by hash of (damaged bytes, program, delivery); non-trivial = stream of at least 2 bytes."
}
func (hostile) Assumptions() []string {
	return []string{
		"returned errors are always acceptable: the oracle never says a damaged stream must be accepted or rejected (that is C07)",
		"allocation is measured with runtime/metrics /gc/heap/allocs:bytes around each case in a worker that runs one case at a time",
		"seam-free infinite loops are caught by the parent's wall-clock stall watchdog (re-run alone with a 10x limit before being reported)",
		"worker death (fatal runtime error, resource limit) is identified by write-ahead of the case and confirmed by an isolated re-run and a replay",
	}
}
func (hostile) Components() map[string]string {
	return map[string]string{
		"ion package (Readers, Decoder, Unmarshal paths, symbol tables, Decimal, Timestamp)": "real code from /repo working tree",
		"io.Reader under the Reader": "stub: sim.Source (delivery plan, reads-after-end budget)",
		"ion.Catalog":                "real ion.NewCatalog with two shared tables, or nil",
	}
}

var hostileAlphabet = []byte{0x00, 0x0f, 0x11, 0x21, 0x2e, 0x3f, 0x4e, 0x5e, 0x6e, 0x71, 0x8e, 0xb1, 0xd1, 0xde, 0xe0, 0xe3, 0xea, 0xff, '"', '\'', '{', '$', '1', ':'}

// shortString returns the j-th byte string of length <= 3 over hostileAlphabet (binary ones get a version marker).
func shortString(j int) []byte {
	n := len(hostileAlphabet)
	total := 1 + n + n*n + n*n*n
	j %= total
	var s []byte
	switch {
	case j == 0:
	case j < 1+n:
		s = []byte{hostileAlphabet[j-1]}
	case j < 1+n+n*n:
		k := j - 1 - n
		s = []byte{hostileAlphabet[k/n], hostileAlphabet[k%n]}
	default:
		k := j - 1 - n - n*n
		s = []byte{hostileAlphabet[k/(n*n)], hostileAlphabet[(k/n)%n], hostileAlphabet[k%n]}
	}
	return s
}

func varUIntBytes(v uint64, wide bool) []byte {
	if wide {
		// the largest 10-octet VarUInt
		return []byte{0x7f, 0x7f, 0x7f, 0x7f, 0x7f, 0x7f, 0x7f, 0x7f, 0x7f, 0xff}
	}
	var tmp [10]byte
	i := len(tmp) - 1
	tmp[i] = byte(v&0x7f) | 0x80
	v >>= 7
	for v > 0 {
		i--
		tmp[i] = byte(v & 0x7f)
		v >>= 7
	}
	return append([]byte(nil), tmp[i:]...)
}

var boundaryValues = []uint64{0, 1, 13, 14, 127, 128, 1 << 14, 1<<31 - 1, 1 << 31, 1 << 32, 1 << 62, 1 << 63, 1<<64 - 1}

// hostileLST builds a symbol-table struct with hostile slots.
func hostileLST(r *prng.Rand) *model.Value {
	o := gen.DefaultOpts()
	o.MaxDepth = 2
	anyValue := func() *model.Value {
		switch r.Intn(6) {
		case 0:
			return model.NewNull(model.Kind(r.Intn(13)))
		case 1:
			return model.NewBig(gen.BigInt(r))
		case 2:
			return model.NewString(gen.Str(r, o, 5))
		case 3:
			s := model.ID(int64(r.Intn(12)))
			return model.NewSymbol(s)
		default:
			v := gen.Value(r, o, 1)
			v.Field = nil
			return v
		}
	}
	field := func(name string, v *model.Value) *model.Value {
		v.Field = &model.Sym{Text: name, HasText: true}
		return v
	}
	st := model.NewSeq(model.Struct)
	st.Annots = []model.Sym{model.T("$ion_symbol_table")}
	if r.Chance(1, 8) {
		st.Annots = append(st.Annots, model.T("x"))
	}
	nf := r.Range(0, 4)
	for j := 0; j < nf; j++ {
		switch r.Intn(6) {
		case 0, 1: // imports
			switch r.Intn(4) {
			case 0:
				st.Kids = append(st.Kids, field("imports", anyValue()))
			case 1:
				st.Kids = append(st.Kids, field("imports", model.NewSymbol(model.T("$ion_symbol_table"))))
			default:
				lst := model.NewSeq(model.List)
				for k := r.Intn(4); k > 0; k-- {
					if r.Chance(1, 4) {
						lst.Kids = append(lst.Kids, anyValue())
						continue
					}
					imp := model.NewSeq(model.Struct)
					for _, fn := range []string{"name", "version", "max_id", "name", "other"} {
						if r.Chance(2, 3) {
							var v *model.Value
							switch r.Intn(5) {
							case 0:
								v = anyValue()
							case 1:
								v = model.NewNull([]model.Kind{model.Null, model.String, model.Int, model.Symbol}[r.Intn(4)])
							default:
								switch fn {
								case "name":
									v = model.NewString([]string{"sh", "other", "$ion", "", "nope"}[r.Intn(5)])
								default:
									v = model.NewBig(gen.BigInt(r))
									if r.Bool() {
										v = model.NewInt(int64(r.Intn(20)) - 2)
									}
								}
							}
							imp.Kids = append(imp.Kids, field(fn, v))
						}
					}
					lst.Kids = append(lst.Kids, imp)
				}
				st.Kids = append(st.Kids, field("imports", lst))
			}
		case 2, 3: // symbols
			if r.Chance(1, 3) {
				st.Kids = append(st.Kids, field("symbols", anyValue()))
			} else {
				lst := model.NewSeq(model.List)
				for k := r.Intn(6); k > 0; k-- {
					if r.Chance(1, 3) {
						lst.Kids = append(lst.Kids, anyValue())
					} else {
						lst.Kids = append(lst.Kids, model.NewString(gen.Str(r, o, 4)))
					}
				}
				st.Kids = append(st.Kids, field("symbols", lst))
			}
		case 4:
			st.Kids = append(st.Kids, field([]string{"max_id", "version", "name"}[r.Intn(3)], anyValue()))
		default:
			s := model.ID(int64(r.Intn(12)))
			v := anyValue()
			v.Field = &s
			st.Kids = append(st.Kids, v)
		}
	}
	return st
}

// hostileDoc renders a hostile-producer document.
func hostileDoc(r *prng.Rand, text bool) *render.Out {
	var items []render.Item
	o := gen.DefaultOpts()
	o.MaxDepth = 3
	idSym := func() model.Sym { return model.Sym{SID: int64(r.Intn(25)), ByID: true} }
	n := r.Range(1, 6)
	for j := 0; j < n; j++ {
		switch r.Intn(5) {
		case 0, 1:
			items = append(items, render.Item{V: hostileLST(r)})
		case 2:
			if !text || r.Bool() {
				items = append(items, render.Item{BVM: true})
			}
		default:
			var v *model.Value
			switch r.Intn(4) {
			case 0:
				v = model.NewSymbol(idSym())
			case 1:
				v = model.NewSeq(model.Struct, model.NewInt(1).Named(idSym()), model.NewNull(model.Int).Named(idSym()))
			case 2:
				v = model.NewNull(model.Kind(r.Intn(13)))
			default:
				v = model.NewSeq(model.List, model.NewSymbol(idSym()), model.NewNull(model.Int))
			}
			if r.Chance(1, 3) {
				v.Annots = append(v.Annots, idSym())
			}
			items = append(items, render.Item{V: v})
		}
	}
	if text {
		return render.Text(items, render.TextOpts{})
	}
	// binary, explicit mode: symbols given by text that are not system symbols become ID references
	var fix func(v *model.Value)
	byID := func(s *model.Sym) {
		if s.HasText && !s.ByID {
			for _, sys := range model.SystemSymbols {
				if sys == s.Text {
					return
				}
			}
			*s = model.Sym{SID: int64(r.Intn(25)), ByID: true}
		}
	}
	fix = func(v *model.Value) {
		if v.Field != nil {
			byID(v.Field)
		}
		for i := range v.Annots {
			byID(&v.Annots[i])
		}
		if v.Kind == model.Symbol && v.Sym != nil {
			byID(v.Sym)
		}
		for _, k := range v.Kids {
			fix(k)
		}
	}
	for _, it := range items {
		if it.V != nil {
			fix(it.V)
		}
	}
	return render.Binary(items, render.BinOpts{})
}

var extremeText = map[string][]string{
	"number":    {"1e99999999", "1d-2147483649", "1d2147483648", "-0", "9999999999999999999999999999999999999999", "0x" + strings.Repeat("f", 300), "1e-99999999", "0b" + strings.Repeat("1", 200), "1." + strings.Repeat("0", 400)},
	"timestamp": {"9999-12-31T23:59:59.999999999999999999999+23:59", "0001-01-01T00:00-23:59", "2000-01-01T00:00:00." + strings.Repeat("9", 60) + "Z", "9999-12-31T23:59:59.9999999999Z", "0001T"},
	"sid":       {"$4294967296", "$9223372036854775808", "$99999999999999999999", "$2147483648", "$18446744073709551615"},
}

// damage applies 0..3 stored-medium faults.
func damage(r *prng.Rand, out *render.Out, text bool) ([]byte, []string) {
	data := out.Bytes
	var kinds []string
	n := []int{0, 1, 1, 1, 2, 3}[r.Intn(6)]
	sitesUsable := true
	for q := 0; q < n; q++ {
		if len(data) == 0 {
			break
		}
		kind := r.Intn(12)
		if kind >= 9 {
			kind = 9
		}
		if kind >= 6 && !sitesUsable {
			kind = r.Intn(6)
		}
		if kind == 9 && text {
			kind = 6 + r.Intn(3)
		}
		switch kind {
		case 9:
			// off-by-a-few length: an inline length nibble or the last VarUInt octet of a length moves by 1..3, so a
			// value ends just before or just past the end of its container (only valid on undamaged offsets)
			var cands []render.Site
			for _, s := range out.Sites {
				if (s.Kind == "tag" && s.Aux&0xff < 14 && (s.Aux>>8) >= 2) || s.Kind == "len" {
					cands = append(cands, s)
				}
			}
			if len(cands) == 0 {
				continue
			}
			// prefer the length of a container (where overruns by one matter most), nested ones above all
			var conts []render.Site
			for _, s := range cands {
				tagOff := s.Off
				if s.Kind == "len" {
					tagOff = s.Off - 1
				}
				if tagOff >= 0 && tagOff < len(out.Bytes) && out.Bytes[tagOff]>>4 >= 11 && out.Bytes[tagOff]>>4 <= 13 && s.Depth > 0 {
					conts = append(conts, s)
				}
			}
			// ... and among those, containers that are the last child of their parent: raising their length by the size of
			// their own length field is the smallest possible overrun of the parent
			var lastKids []render.Site
			for _, c1 := range out.Sites {
				if c1.Kind != "container" || c1.Depth == 0 {
					continue
				}
				for _, c2 := range out.Sites {
					if c2.Kind == "container" && c2.Depth == c1.Depth-1 && c2.Off < c1.Off && c2.Off+c2.Len == c1.Off+c1.Len {
						for _, s := range conts {
							if (s.Kind == "tag" && s.Off == c1.Off) || (s.Kind == "len" && s.Off == c1.Off+1) {
								lastKids = append(lastKids, s)
							}
						}
						break
					}
				}
			}
			s := cands[r.Intn(len(cands))]
			if len(conts) > 0 && r.Chance(2, 3) {
				s = conts[r.Intn(len(conts))]
				if len(lastKids) > 0 && r.Bool() {
					s = lastKids[r.Intn(len(lastKids))]
				}
			}
			delta := 1
			if r.Bool() {
				delta = r.Range(1, 3)
				if r.Chance(1, 3) {
					delta = -delta
				}
			}
			at := s.Off
			var nb byte
			if s.Kind == "tag" {
				l := int(data[at]&0x0f) + delta
				if l < 0 {
					l = 0
				}
				if l > 13 {
					l = 13
				}
				nb = data[at]&0xf0 | byte(l)
			} else {
				at = s.Off + s.Len - 1
				v := int(data[at]&0x7f) + delta
				if v < 0 {
					v = 0
				}
				if v > 0x7f {
					v = 0x7f
				}
				nb = 0x80 | byte(v)
			}
			data = sim.ApplyMedium(out.Bytes, sim.MediumFault{Kind: "replace", At: at, Len: 1, Data: []byte{nb}})
			kinds = append(kinds, "length-off-by-few")
			sitesUsable = false
		case 0:
			data = sim.ApplyMedium(data, sim.MediumFault{Kind: "flip", At: r.Intn(len(data)), Bit: uint(r.Intn(8))})
			kinds = append(kinds, "flip")
		case 1:
			data = sim.ApplyMedium(data, sim.MediumFault{Kind: "set", At: r.Intn(len(data)), Byte: hostileAlphabet[r.Intn(len(hostileAlphabet))]})
			kinds = append(kinds, "set")
		case 2:
			data = sim.ApplyMedium(data, sim.MediumFault{Kind: "zero", At: r.Intn(len(data)), Len: r.Range(1, 8)})
			kinds = append(kinds, "zero-block")
		case 3:
			data = sim.ApplyMedium(data, sim.MediumFault{Kind: "drop", At: r.Intn(len(data)), Len: r.Range(1, 8)})
			kinds = append(kinds, "lost-block")
		case 4:
			if r.Bool() {
				data = sim.ApplyMedium(data, sim.MediumFault{Kind: "dup", At: r.Intn(len(data)), Len: r.Range(1, 16)})
				kinds = append(kinds, "dup-block")
			} else {
				data = sim.ApplyMedium(data, sim.MediumFault{Kind: "splice", At: r.Intn(len(data)), Len: r.Range(1, 16), To: r.Intn(len(data))})
				kinds = append(kinds, "splice-block")
			}
		case 5:
			data = sim.ApplyMedium(data, sim.MediumFault{Kind: "truncate", At: r.Intn(len(data))})
			kinds = append(kinds, "truncate")
		default:
			// extremize a length / exponent / ID field found through the byte map (only valid on undamaged offsets)
			var cands []render.Site
			for _, s := range out.Sites {
				switch s.Kind {
				case "len", "symid", "fieldid", "annot-id", "annot-len", "dec-exp", "ts-field", "number", "timestamp", "sid", "tag":
					cands = append(cands, s)
				}
			}
			if len(cands) == 0 {
				continue
			}
			s := cands[r.Intn(len(cands))]
			var repl []byte
			if text {
				alts := extremeText[s.Kind]
				if alts == nil {
					continue
				}
				repl = []byte(alts[r.Intn(len(alts))])
			} else {
				switch s.Kind {
				case "tag":
					// turn an inline length into "length follows" with a boundary VarUInt
					if s.Aux&0xff >= 14 {
						continue
					}
					b := data[s.Off]&0xf0 | 0x0e
					repl = append([]byte{b}, varUIntBytes(boundaryValues[r.Intn(len(boundaryValues))], r.Chance(1, 8))...)
				case "symid":
					v := boundaryValues[r.Intn(len(boundaryValues))]
					for sh := 56; sh >= 0; sh -= 8 {
						if v>>uint(sh) != 0 || len(repl) > 0 {
							repl = append(repl, byte(v>>uint(sh)))
						}
					}
					if len(repl) != s.Len {
						// keep the declared length consistent only when possible; otherwise it is one more hostile case
					}
				default:
					repl = varUIntBytes(boundaryValues[r.Intn(len(boundaryValues))], r.Chance(1, 8))
				}
			}
			data = sim.ApplyMedium(out.Bytes, sim.MediumFault{Kind: "replace", At: s.Off, Len: s.Len, Data: repl})
			kinds = append(kinds, "extremize-"+s.Kind)
			sitesUsable = false
		}
		if kind < 6 {
			sitesUsable = false
		}
	}
	return data, kinds
}

var hostileCatalog = &model.Catalog{Tables: []model.Shared{
	{Name: "sh", Version: 1, Symbols: []string{"a", "foo", "$5"}},
	{Name: "sh", Version: 3, Symbols: []string{"a", "foo", "$5", "x", "y"}},
	{Name: "other", Version: 1, Symbols: []string{"b"}},
}}

func (s hostile) Run(c *Ctx, i int) {
	r := prng.New(prng.Mix(c.Seed, 6, uint64(i)))
	text := i%2 == 0
	var out *render.Out
	base := "valid-doc"
	pick := r.Intn(5)
	if !text && pick >= 3 && r.Bool() {
		pick = 5
	}
	switch pick {
	case 5:
		// correctly framed binary values whose fields take extreme values
		b, kinds := hostileAtomsDoc(r.Fork())
		out = &render.Out{Bytes: b, Map: make([]render.Mark, len(b))}
		base = "extreme-atoms"
		for _, k := range kinds {
			c.Count("atom."+k, 1)
		}
	case 0, 1:
		out = hostileDoc(r.Fork(), text)
		base = "hostile-producer-doc"
	case 2:
		// deep nesting
		depth := []int{50, 500, 3000}[r.Intn(3)]
		var b []byte
		if text {
			b = []byte(strings.Repeat([]string{"[", "(", "{a:"}[r.Intn(3)], depth))
		} else {
			b = []byte{0xe0, 0x01, 0x00, 0xea}
			for d := 0; d < depth; d++ {
				b = append(b, 0xbe, 0x7f, 0xff)
			}
		}
		out = &render.Out{Bytes: b, Map: make([]render.Mark, len(b))}
		base = "deep-nesting"
	default:
		d := genDoc(r.Fork(), text, 4)
		out = d.Out
	}
	data, kinds := damage(r.Fork(), out, text)
	c.Count("base."+base, 1)
	for _, k := range kinds {
		c.Count("fault."+k+".applied", 1)
	}
	if i < 4 {
		c.Sample(map[string]interface{}{"index": i, "base": base, "faults": kinds, "bytes_hex": fmt.Sprintf("%x", trunc(string(data), 300))})
	}
	pr := r.Fork()
	s.drive(c, pr, data)
	if base == "valid-doc" && !text && i%3 == 0 {
		s.containerLengthSweep(c, out)
	}
	// enumeration of short strings
	for t := 0; t < 8; t++ {
		b := shortString(i*8 + t)
		c.Count("short-strings.enumerated", 1)
		s.driveShort(c, pr, b)
		if len(b) > 0 {
			s.driveShort(c, pr, append([]byte{0xe0, 0x01, 0x00, 0xea}, b...))
		}
	}
}

// containerLengthSweep enumerates, for one valid binary document, every nested container's length field moved by
// one in either direction (the smallest overrun and underrun of the enclosing container), each read by a full traversal
// and by six navigating callers that skip, enter or leave early.
func (s hostile) containerLengthSweep(c *Ctx, out *render.Out) {
	n := 0
	for _, site := range out.Sites {
		if site.Depth == 0 || (site.Kind != "len" && site.Kind != "tag") {
			continue
		}
		tagOff, at := site.Off, site.Off
		if site.Kind == "len" {
			tagOff, at = site.Off-1, site.Off+site.Len-1
		}
		if tagOff < 0 || tagOff >= len(out.Bytes) {
			continue
		}
		if t := out.Bytes[tagOff] >> 4; t < 11 || t > 13 {
			continue
		}
		if site.Kind == "tag" && (out.Bytes[tagOff]&0x0f >= 14 || (out.Bytes[tagOff]>>4 == 13 && out.Bytes[tagOff]&0x0f == 1)) {
			continue // the length lives in the VarUInt that follows
		}
		for _, delta := range []int{1, -1} {
			var nb byte
			if site.Kind == "tag" {
				l := int(out.Bytes[at]&0x0f) + delta
				if l < 0 || l > 13 || (out.Bytes[at]>>4 == 13 && l == 1) {
					continue
				}
				nb = out.Bytes[at]&0xf0 | byte(l)
			} else {
				v := int(out.Bytes[at]&0x7f) + delta
				if v < 0 || v > 0x7f {
					continue
				}
				nb = 0x80 | byte(v)
			}
			data := sim.ApplyMedium(out.Bytes, sim.MediumFault{Kind: "replace", At: at, Len: 1, Data: []byte{nb}})
			c.Count("fault.container-length-plus-minus-one.applied", 1)
			s.exec(c, drive.HostileCase{Data: data, Plan: planWhole(), Kind: "traverse"})
			for q := 0; q < 6; q++ {
				s.exec(c, drive.HostileCase{Data: data, Plan: planWhole(), Kind: "skim", Target: q*7919 + n})
			}
			n++
			if n >= 24 {
				return
			}
		}
	}
}

func (s hostile) plan(r *prng.Rand, n int) sim.ReadPlan {
	switch r.Intn(3) {
	case 0:
		return planWhole()
	case 1:
		return planBytes()
	}
	return planRandom(r, n, r.Bool())
}

func (s hostile) drive(c *Ctx, r *prng.Rand, data []byte) {
	var cat *model.Catalog
	if r.Bool() {
		cat = hostileCatalog
	}
	for q := 0; q < 2; q++ {
		n := r.Range(1, 200)
		calls := make([]int, n)
		bias := r.Intn(3)
		for j := range calls {
			switch bias {
			case 0:
				calls[j] = r.Intn(len(drive.ReaderOps))
			case 1: // mostly Next / StepIn with accessors
				calls[j] = []int{0, 0, 5, 5, 6, 9, 18, 4, 19, 20, r.Intn(21)}[r.Intn(11)]
			default:
				calls[j] = []int{0, 5, r.Intn(21), r.Intn(21)}[r.Intn(4)]
			}
		}
		s.exec(c, drive.HostileCase{Data: data, Plan: s.plan(r, len(data)), Kind: "calls", Calls: calls, Catalog: cat})
	}
	s.exec(c, drive.HostileCase{Data: data, Plan: s.plan(r, len(data)), Kind: "traverse", Catalog: cat})
	for q := 0; q < 3; q++ {
		s.exec(c, drive.HostileCase{Data: data, Plan: s.plan(r, len(data)), Kind: "skim", Target: r.Intn(1 << 20), Catalog: cat})
	}
	s.exec(c, drive.HostileCase{Data: data, Plan: s.plan(r, len(data)), Kind: "decode", Catalog: cat})
	for q := 0; q < 3; q++ {
		s.exec(c, drive.HostileCase{Data: data, Plan: s.plan(r, len(data)), Kind: "unmarshal", Target: r.Intn(drive.TargetCount), Catalog: cat})
	}
}

func (s hostile) driveShort(c *Ctx, r *prng.Rand, data []byte) {
	s.exec(c, drive.HostileCase{Data: data, Plan: planWhole(), Kind: "traverse"})
	s.exec(c, drive.HostileCase{Data: data, Plan: planBytes(), Kind: "decode"})
	s.exec(c, drive.HostileCase{Data: data, Plan: planWhole(), Kind: "unmarshal", Target: r.Intn(drive.TargetCount)})
	calls := make([]int, 12)
	for j := range calls {
		calls[j] = r.Intn(len(drive.ReaderOps))
	}
	s.exec(c, drive.HostileCase{Data: data, Plan: planWhole(), Kind: "calls", Calls: calls})
}

func (s hostile) exec(c *Ctx, hc drive.HostileCase) {
	c.Ahead(hc)
	oc := drive.RunHostile(hc)
	c.Steps += int64(oc.Reads)
	c.Count("hostile.runs", 1)
	c.Count("hostile.runs."+hc.Kind, 1)
	if len(hc.Data) >= 2 {
		h := uint64(len(hc.Kind)*131 + hc.Target*7)
		for _, b := range hc.Data {
			h = (h ^ uint64(b)) * 1099511628211
		}
		for _, k := range hc.Calls {
			h = (h ^ uint64(k+1)) * 1099511628211
		}
		h = (h ^ uint64(len(hc.Plan.Steps)*17+hc.Plan.Tail)) * 1099511628211
		c.DistinctU(h)
	}
	fm := format(hc.Data)
	switch {
	case oc.Panic != "":
		c.Report("C06", "C06.P", "C06.P/"+oc.Frame+"/"+drive.PanicClass(oc.Panic), fmt.Sprintf("panic in %s (%s): %s; input=%s", oc.PanicCall, hc.Kind, oc.Panic, showOut(hc.Data, fm == "binary")), hc)
	case oc.Spin:
		c.Report("C06", "C06.L1", "C06.L1/"+fm+"/"+hc.Kind, "reader keeps calling Read after end of data without finishing; input="+showOut(hc.Data, fm == "binary"), hc)
	case oc.Overrun:
		c.Report("C06", "C06.L2", "C06.L2/"+fm+"/"+hc.Kind, fmt.Sprintf("more values (%d Next()==true, %d decoded) than bytes (%d): looping without consuming input; input=%s", oc.NextTrue, oc.Decoded, len(hc.Data), showOut(hc.Data, fm == "binary")), hc)
	}
	limit := uint64(32<<20) + uint64(4096*len(hc.Data))
	if oc.AllocBytes > limit {
		c.Report("C06", "C06.M", "C06.M/"+fm+"/"+hc.Kind, fmt.Sprintf("allocated %d bytes for an input of %d bytes (limit %d); input=%s", oc.AllocBytes, len(hc.Data), limit, showOut(hc.Data, fm == "binary")), hc)
	}
	if oc.Err != "" {
		c.Count("hostile.ended-in-error", 1)
	}
}

func (s hostile) Replay(c *Ctx, caseJSON []byte) error {
	var hc drive.HostileCase
	if err := json.Unmarshal(caseJSON, &hc); err != nil {
		return err
	}
	if hc.Kind == "" {
		// a by-index case written by the parent (no per-case write-ahead was available)
		var bi struct {
			ByIndex bool   `json:"by_index"`
			Seed    uint64 `json:"seed"`
			Index   int    `json:"index"`
		}
		if json.Unmarshal(caseJSON, &bi) == nil && bi.ByIndex {
			c.Seed = bi.Seed
			s.Run(c, bi.Index)
			return nil
		}
		return fmt.Errorf("not a hostile case")
	}
	s.exec(c, hc)
	return nil
}

func (s hostile) Shrink(caseJSON []byte) [][]byte {
	var hc drive.HostileCase
	if json.Unmarshal(caseJSON, &hc) != nil {
		return nil
	}
	var out [][]byte
	emit := func(x drive.HostileCase) {
		if b, err := json.Marshal(x); err == nil {
			out = append(out, b)
		}
	}
	if len(hc.Plan.Steps) > 0 || hc.Plan.Tail != 0 || hc.Plan.EOFWithLast {
		x := hc
		x.Plan = planWhole()
		emit(x)
	}
	if hc.Catalog != nil {
		x := hc
		x.Catalog = nil
		emit(x)
	}
	if n := len(hc.Calls); n > 1 {
		for size := n / 2; size >= 1; size /= 2 {
			for st := 0; st+size <= n; st += size {
				x := hc
				x.Calls = append(append([]int(nil), hc.Calls[:st]...), hc.Calls[st+size:]...)
				emit(x)
			}
			if size == 1 {
				break
			}
		}
	}
	for _, d := range removeSpans(hc.Data) {
		x := hc
		x.Data = d
		emit(x)
	}
	return out
}

// Package prng is the only source of randomness in ionsim: splitmix64 seeding a
// xoshiro256** generator. It is own code so that streams never change with the Go version.
package prng

type Rand struct{ s [4]uint64 }

func splitmix(x *uint64) uint64 {
	*x += 0x9E3779B97F4A7C15
	z := *x
	z = (z ^ (z >> 30)) * 0xBF58476D1CE4E5B9
	z = (z ^ (z >> 27)) * 0x94D049BB133111EB
	return z ^ (z >> 31)
}

// Mix derives a sub-seed from a seed and labels, order-sensitively.
func Mix(seed uint64, labels ...uint64) uint64 {
	x := seed
	out := splitmix(&x)
	for _, l := range labels {
		x ^= l * 0xD6E8FEB86659FD93
		out ^= splitmix(&x)
		out = out*0x2545F4914F6CDD1D + 1
	}
	return out
}

// MixS derives a sub-seed from a string label.
func MixS(seed uint64, label string) uint64 {
	h := uint64(1469598103934665603)
	for i := 0; i < len(label); i++ {
		h ^= uint64(label[i])
		h *= 1099511628211
	}
	return Mix(seed, h)
}

func New(seed uint64) *Rand {
	r := &Rand{}
	x := seed
	for i := range r.s {
		r.s[i] = splitmix(&x)
	}
	return r
}

func rotl(x uint64, k uint) uint64 { return (x << k) | (x >> (64 - k)) }

func (r *Rand) Uint64() uint64 {
	s := &r.s
	res := rotl(s[1]*5, 7) * 9
	t := s[1] << 17
	s[2] ^= s[0]
	s[3] ^= s[1]
	s[1] ^= s[2]
	s[0] ^= s[3]
	s[2] ^= t
	s[3] = rotl(s[3], 45)
	return res
}

// Intn returns a value in [0,n). n<=0 returns 0.
func (r *Rand) Intn(n int) int {
	if n <= 1 {
		return 0
	}
	return int(r.Uint64() % uint64(n))
}

// Range returns a value in [lo,hi].
func (r *Rand) Range(lo, hi int) int {
	if hi <= lo {
		return lo
	}
	return lo + r.Intn(hi-lo+1)
}

// Chance returns true with probability num/den.
func (r *Rand) Chance(num, den int) bool { return r.Intn(den) < num }

func (r *Rand) Bool() bool { return r.Uint64()&1 == 1 }

func (r *Rand) Float64() float64 { return float64(r.Uint64()>>11) / (1 << 53) }

// Fork returns an independent generator derived from this one (consumes one draw).
func (r *Rand) Fork() *Rand { return New(r.Uint64()) }

// Perm returns a permutation of [0,n).
func (r *Rand) Perm(n int) []int {
	p := make([]int, n)
	for i := range p {
		p[i] = i
	}
	for i := n - 1; i > 0; i-- {
		j := r.Intn(i + 1)
		p[i], p[j] = p[j], p[i]
	}
	return p
}

package calib

import (
	"fmt"
	"testing"

	"ionsim/drive"
	"ionsim/gen"
	"ionsim/model"
	"ionsim/prng"
	"ionsim/ref"
	"ionsim/render"
	"ionsim/sim"
)

func TestBinaryRenderRef(t *testing.T) {
	bad := 0
	ionErr := map[string]int{}
	for i := 0; i < 20000; i++ {
		r := prng.New(prng.Mix(7, uint64(i)))
		o := gen.Swarm(r)
		doc := gen.Sanitize(gen.Doc(r, o, 6))
		out := render.Binary(render.Values(doc), render.SwarmBin(r.Fork()))
		res, err := ref.DecodeBinary(out.Bytes, ref.Options{})
		if err != nil {
			bad++
			if bad < 10 {
				t.Errorf("case %d: ref error %v\n doc=%v\n bytes=%x", i, err, doc, out.Bytes)
			}
			continue
		}
		if !model.EqualAll(res.Values, doc) {
			bad++
			if bad < 10 {
				t.Errorf("case %d: ref mismatch\n doc=%v\n got=%v\n bytes=%x", i, doc, res.Values, out.Bytes)
			}
			continue
		}
		oc := drive.RunRead(drive.ReadCase{Data: out.Bytes, Plan: sim.ReadPlan{}, Prog: drive.Full})
		if oc.Err != "" || oc.Panic != "" {
			k := oc.Err
			if oc.Panic != "" {
				k = "PANIC " + oc.Panic
			}
			k = drive.PanicClass(k)
			ionErr[k]++
			if ionErr[k] == 1 {
				fmt.Printf("ion-go rejects: %s\n doc=%v\n bytes=%x\n", k, doc, out.Bytes)
			}
		}
	}
	fmt.Println("ion-go error classes on valid binary:", ionErr)
}

func TestTextRenderRef(t *testing.T) {
	bad := 0
	unsure := map[string]int{}
	ionErr := map[string]int{}
	for i := 0; i < 20000; i++ {
		r := prng.New(prng.Mix(11, uint64(i)))
		o := gen.Swarm(r)
		doc := gen.Sanitize(gen.Doc(r, o, 6))
		out := render.Text(render.Values(doc), render.SwarmText(r.Fork()))
		res, err := ref.DecodeText(out.Bytes, ref.Options{})
		if err != nil {
			if err.Unsure {
				unsure[err.Rule]++
				continue
			}
			bad++
			if bad < 10 {
				t.Errorf("case %d: ref error %v\n doc=%v\n text=%q", i, err, doc, out.Bytes)
			}
			continue
		}
		if !model.EqualAll(res.Values, doc) {
			bad++
			if bad < 10 {
				t.Errorf("case %d: ref mismatch\n doc=%v\n got=%v\n text=%q", i, doc, res.Values, out.Bytes)
			}
			continue
		}
		oc := drive.RunRead(drive.ReadCase{Data: out.Bytes, Plan: sim.ReadPlan{}, Prog: drive.Full})
		if oc.Err != "" || oc.Panic != "" {
			k := oc.Err
			if oc.Panic != "" {
				k = "PANIC " + oc.Panic
			}
			k = drive.PanicClass(k)
			ionErr[k]++
			if ionErr[k] == 1 {
				fmt.Printf("ion-go rejects: %s\n text=%q\n", k, out.Bytes)
			}
		}
	}
	fmt.Println("ref unsure:", unsure)
	fmt.Println("ion-go error classes on valid text:", len(ionErr))
	for k, v := range ionErr {
		fmt.Println("  ", v, k)
	}
}

// Package scenario holds the simulated scenarios (one per claimed property) and their shared bookkeeping.
package scenario

import (
	"encoding/json"
	"fmt"
	"hash/fnv"
	"sort"
)

// Violation is one oracle failure, carrying the explicit case that reproduces it.
type Violation struct {
	Property  string          `json:"property"`
	Clause    string          `json:"clause"`    // e.g. C19.R2E (DESIGN.md appendix B)
	Signature string          `json:"signature"` // coarse identity: clause + kind + call site / trigger class
	Detail    string          `json:"detail"`
	Seed      uint64          `json:"seed"`
	Index     int             `json:"index"`
	Case      json.RawMessage `json:"case"`
}

// Ctx collects what one worker (or one replay) observed.
type Ctx struct {
	Seed       uint64
	Counters   map[string]int64
	Violations []Violation
	perSig     map[string]int
	Hashes     map[uint64]struct{}
	Samples    []json.RawMessage
	MaxPerSig  int
	MaxSamples int
	CurIndex   int
	// Steps is the number of logical I/O steps simulated (Read + Write + catalog calls).
	Steps int64
	// WriteAhead, when set, is called with the explicit case about to be executed (crash forensics).
	WriteAhead func(caseJSON []byte)
}

// Ahead records the case about to run when write-ahead is enabled.
func (c *Ctx) Ahead(cs interface{}) {
	if c.WriteAhead == nil {
		return
	}
	if b, err := json.Marshal(cs); err == nil {
		c.WriteAhead(b)
	}
}

// DeathClass reduces the first line of a dead worker's log to a stable class.
func DeathClass(line string) string {
	out := make([]byte, 0, len(line))
	lastHash := false
	for i := 0; i < len(line) && len(out) < 60; i++ {
		ch := line[i]
		if ch >= '0' && ch <= '9' {
			if !lastHash {
				out = append(out, '#')
				lastHash = true
			}
			continue
		}
		lastHash = false
		out = append(out, ch)
	}
	return string(out)
}

func NewCtx(seed uint64) *Ctx {
	return &Ctx{Seed: seed, Counters: map[string]int64{}, perSig: map[string]int{}, Hashes: map[uint64]struct{}{}, MaxPerSig: 3, MaxSamples: 4}
}

func (c *Ctx) Count(name string, n int64) { c.Counters[name] += n }

// Distinct records a case hash.
func (c *Ctx) Distinct(parts ...[]byte) {
	h := fnv.New64a()
	for _, p := range parts {
		h.Write(p)
		h.Write([]byte{0xff})
	}
	c.Hashes[h.Sum64()] = struct{}{}
}

func (c *Ctx) DistinctU(h uint64) { c.Hashes[h] = struct{}{} }

// Sample keeps a few actual cases for the evidence file.
func (c *Ctx) Sample(v interface{}) {
	if len(c.Samples) >= c.MaxSamples {
		return
	}
	b, err := json.Marshal(v)
	if err == nil {
		c.Samples = append(c.Samples, b)
	}
}

// Report records a violation (bounded per signature).
func (c *Ctx) Report(prop, clause, sig, detail string, cs interface{}) {
	c.Counters["violations."+clause]++
	if c.perSig[sig] >= c.MaxPerSig {
		return
	}
	c.perSig[sig]++
	b, err := json.Marshal(cs)
	if err != nil {
		b = []byte(fmt.Sprintf("{\"marshal_error\":%q}", err.Error()))
	}
	c.Violations = append(c.Violations, Violation{Property: prop, Clause: clause, Signature: sig, Detail: detail, Seed: c.Seed, Index: c.CurIndex, Case: b})
}

// SortedCounters returns counters in a deterministic order.
func SortedCounters(m map[string]int64) []string {
	keys := make([]string, 0, len(m))
	for k := range m {
		keys = append(keys, k)
	}
	sort.Strings(keys)
	return keys
}

// Scenario is one property's simulation.
type Scenario interface {
	Property() string
	Name() string
	Level() string // exploration | fault_enumeration
	// Indices returns how many run indices a tier uses.
	Indices(tier string) int
	// Run generates and executes every case of run index i.
	Run(c *Ctx, i int)
	// Replay executes one explicit case (as stored in a replay file) and reports violations into c.
	Replay(c *Ctx, caseJSON []byte) error
	// Shrink returns smaller candidate cases for a failing case (may return nil).
	Shrink(caseJSON []byte) [][]byte
	// Rule describes how cases are generated and what makes one distinct and non-trivial.
	Rule() string
	// Assumptions lists the trusted base.
	Assumptions() []string
	// Components lists which components are real and which are stubs.
	Components() map[string]string
}

var registry = map[string]Scenario{}
var order []string

func Register(s Scenario) {
	registry[s.Property()] = s
	order = append(order, s.Property())
}

func Get(prop string) Scenario { return registry[prop] }

func All() []string {
	out := append([]string(nil), order...)
	sort.Strings(out)
	return out
}

func trunc(s string, n int) string {
	if len(s) > n {
		return s[:n] + "…"
	}
	return s
}

func format(data []byte) string {
	if len(data) >= 4 && data[0] == 0xE0 && data[3] == 0xEA {
		return "binary"
	}
	return "text"
}

package render

import (
	"encoding/base64"
	"fmt"
	"math"
	"math/big"
	"strconv"
	"strings"
	"unicode/utf8"

	"ionsim/model"
	"ionsim/prng"
)

// TextOpts are the spelling freedoms of the text renderer. With R == nil a plain canonical spelling is used.
type TextOpts struct {
	R          *prng.Rand
	Comments   bool // // and /* */ comments wherever whitespace is legal
	CRLF       bool // \r\n and bare \r as whitespace, not only \n
	LongStr    bool // long strings with segmentation
	Escapes    bool // optional escapes (\xHH, \u, \/, \?, line continuations)
	Radix      bool // hex / binary / underscore forms of integers
	NumForms   bool // alternative decimal / float spellings
	QuoteMore  bool // quote symbols that do not need it; string field names
	LobWS      bool // whitespace inside base64 and around lob content; long clobs
	WSAroundAn bool // whitespace around ::
	Dense      bool // minimal whitespace (no padding around punctuation)
	SIDZeros   bool // symbol identifiers with leading zeros ($007)
}

// SwarmText draws a random subset of spelling freedoms.
func SwarmText(r *prng.Rand) TextOpts {
	o := TextOpts{R: r}
	if r.Chance(1, 5) {
		o.Dense = r.Bool()
		return o
	}
	o.Comments = r.Chance(1, 2)
	o.CRLF = r.Chance(1, 2)
	o.LongStr = r.Chance(1, 2)
	o.Escapes = r.Chance(1, 2)
	o.Radix = r.Chance(1, 2)
	o.NumForms = r.Chance(1, 2)
	o.QuoteMore = r.Chance(1, 2)
	o.LobWS = r.Chance(1, 2)
	o.WSAroundAn = r.Chance(1, 3)
	o.Dense = r.Chance(1, 4)
	return o
}

type textEnc struct {
	o TextOpts
	x buf
}

func (e *textEnc) ch(on bool, num, den int) bool {
	return on && e.o.R != nil && e.o.R.Chance(num, den)
}

func (e *textEnc) rnd(n int) int {
	if e.o.R == nil {
		return 0
	}
	return e.o.R.Intn(n)
}

// ws emits inter-token whitespace. need: at least one separator byte must be produced.
func (e *textEnc) ws(depth int, need bool) {
	n := 0
	if e.o.R == nil {
		if need {
			e.x.put(RWS, depth, ' ')
		}
		return
	}
	count := 0
	if need {
		count = 1
	}
	// an unquoted operator must be followed by real whitespace wherever a comment may follow (also before a closing
	// parenthesis): ion-go, like ion-java, reads "+/*" as one operator, so "+/**/" is not "+" and a comment
	if k := len(e.x.b); k > 0 && e.x.m[k-1].Role == RToken && strings.IndexByte("!#%&*+-./;<=>?@^`|~", e.x.b[k-1]) >= 0 {
		e.x.put(RWS, depth, ' ')
	}
	if !e.o.Dense {
		count += e.rnd(2)
		if e.rnd(8) == 0 {
			count += e.rnd(3)
		}
	}
	for i := 0; i < count; i++ {
		if e.ch(e.o.Comments, 1, 4) {
			if e.rnd(2) == 0 {
				off := len(e.x.b)
				body := []string{"", " c ", "x", " a::b ", "'''", "\"", "{{", "*", "/ *", "[", "}}"}[e.rnd(11)]
				e.x.put(RBlockComment, depth, []byte("/*"+body+"*/")...)
				e.x.site("block-comment", off, len(e.x.b)-off, depth, 0)
			} else {
				off := len(e.x.b)
				body := []string{"", " c", "x", "*/", "'''", "\"", " }} ]", "\\"}[e.rnd(8)]
				nl := "\n"
				if e.ch(e.o.CRLF, 1, 2) {
					nl = "\r\n"
				}
				e.x.put(RLineComment, depth, []byte("//"+body+nl)...)
				e.x.site("line-comment", off, len(e.x.b)-off, depth, 0)
			}
			n++
			continue
		}
		c := byte(' ')
		switch e.rnd(6) {
		case 0:
			c = '\n'
		case 1:
			c = '\t'
		case 2:
			if e.o.CRLF {
				e.x.put(RWS, depth, '\r')
				c = '\n'
			}
		case 3:
			if e.o.CRLF && e.rnd(3) == 0 {
				c = '\r'
			}
		}
		e.x.put(RWS, depth, c)
		n++
	}
}

func isIdent(s string) bool {
	if s == "" {
		return false
	}
	for i := 0; i < len(s); i++ {
		c := s[i]
		ok := c == '_' || c == '$' || (c >= 'a' && c <= 'z') || (c >= 'A' && c <= 'Z') || (i > 0 && c >= '0' && c <= '9')
		if !ok {
			return false
		}
	}
	switch s {
	case "null", "true", "false", "nan":
		return false
	}
	return true
}

func isSIDText(s string) bool {
	if len(s) < 2 || s[0] != '$' {
		return false
	}
	for i := 1; i < len(s); i++ {
		if s[i] < '0' || s[i] > '9' {
			return false
		}
	}
	return true
}

func isOperator(s string) bool {
	if s == "" {
		return false
	}
	for i := 0; i < len(s); i++ {
		if !strings.ContainsRune("!#%&*+-.;<=>?@^`|~", rune(s[i])) { // '/' left out on purpose (comment starts)
			return false
		}
	}
	return true
}

// escaped writes the body of a quoted construct. q is the closing quote character ('"' or '\”),
// long says the construct is a long string (raw LF and raw quotes allowed), clob forbids \u escapes and raw
// non-ASCII.
func (e *textEnc) escapedBytes(b []byte, q byte, long bool) []byte {
	var out []byte
	for i := 0; i < len(b); i++ {
		c := b[i]
		out = e.maybeContinuation(out)
		switch {
		case c == '\\':
			out = append(out, '\\', '\\')
		case c == q && !long:
			out = append(out, '\\', q)
		case c == '\'' && long:
			// raw only when it cannot form ''' and is not the last character before the closing quotes
			if e.ch(e.o.Escapes, 1, 2) && i+1 < len(b) && b[i+1] != '\'' && (i == 0 || b[i-1] != '\'') {
				out = append(out, '\'')
			} else {
				out = append(out, '\\', '\'')
			}
		case c == '\n' && long && e.ch(true, 1, 2):
			out = append(out, '\n')
		case c < 0x20 || c == 0x7f || c >= 0x80:
			out = append(out, escByte(c, e)...)
		default:
			if e.ch(e.o.Escapes, 1, 12) {
				out = append(out, []byte(fmt.Sprintf("\\x%02x", c))...)
			} else if c == '/' && e.ch(e.o.Escapes, 1, 3) {
				out = append(out, '\\', '/')
			} else if c == '?' && e.ch(e.o.Escapes, 1, 3) {
				out = append(out, '\\', '?')
			} else if (c == '"' || c == '\'') && e.ch(e.o.Escapes, 1, 3) {
				out = append(out, '\\', c)
			} else {
				out = append(out, c)
			}
		}
	}
	return e.maybeContinuation(out)
}

func escByte(c byte, e *textEnc) []byte {
	switch c {
	case 0:
		return []byte(`\0`)
	case 7:
		return []byte(`\a`)
	case 8:
		return []byte(`\b`)
	case 9:
		if e.ch(e.o.Escapes, 1, 2) {
			return []byte{9}
		}
		return []byte(`\t`)
	case 10:
		return []byte(`\n`)
	case 12:
		if e.ch(e.o.Escapes, 1, 2) {
			return []byte{12} // a raw form feed is allowed inside quoted text
		}
		return []byte(`\f`)
	case 13:
		return []byte(`\r`)
	case 11:
		if e.ch(e.o.Escapes, 1, 2) {
			return []byte{11} // so is a raw vertical tab
		}
		return []byte(`\v`)
	}
	if e.ch(true, 1, 2) {
		return []byte(fmt.Sprintf("\\x%02X", c))
	}
	return []byte(fmt.Sprintf("\\x%02x", c))
}

func (e *textEnc) maybeContinuation(out []byte) []byte {
	if e.ch(e.o.Escapes, 1, 24) {
		if e.ch(e.o.CRLF, 1, 2) {
			return append(out, '\\', '\r', '\n')
		}
		return append(out, '\\', '\n')
	}
	return out
}

// escapedString writes the body of a string/symbol given as Unicode text.
func (e *textEnc) escapedString(s string, q byte, long bool) []byte {
	var out []byte
	rs := []rune(s)
	for i := 0; i < len(rs); i++ {
		c := rs[i]
		if c < 0x80 {
			// find maximal ASCII run and reuse the byte escaper so look-ahead logic on quotes works
			j := i
			for j < len(rs) && rs[j] < 0x80 {
				j++
			}
			run := make([]byte, 0, j-i)
			for _, r := range rs[i:j] {
				run = append(run, byte(r))
			}
			out = append(out, e.escapedBytes(run, q, long)...)
			i = j - 1
			continue
		}
		if c == utf8.RuneError || e.ch(e.o.Escapes, 1, 3) {
			if c > 0xffff {
				out = append(out, []byte(fmt.Sprintf("\\U%08x", c))...)
			} else if e.ch(true, 1, 2) {
				out = append(out, []byte(fmt.Sprintf("\\u%04X", c))...)
			} else {
				out = append(out, []byte(fmt.Sprintf("\\u%04x", c))...)
			}
			continue
		}
		var tmp [4]byte
		n := utf8.EncodeRune(tmp[:], c)
		out = append(out, tmp[:n]...)
	}
	return out
}

func (e *textEnc) symbol(s model.Sym, depth int, inSexp bool, asField bool) {
	off := len(e.x.b)
	if !s.HasText || s.ByID {
		digits := strconv.FormatInt(s.SID, 10)
		if e.ch(e.o.SIDZeros, 1, 3) {
			digits = strings.Repeat("0", 1+e.rnd(2)) + digits
		}
		e.x.put(RToken, depth, []byte("$"+digits)...)
		e.x.site("sid", off, len(e.x.b)-off, depth, s.SID)
		return
	}
	t := s.Text
	if asField && e.ch(e.o.QuoteMore, 1, 6) && utf8.ValidString(t) {
		// a string as field name
		body := e.escapedString(t, '"', false)
		e.x.put(RQuoted, depth, append(append([]byte{'"'}, body...), '"')...)
		e.x.site("string", off, len(e.x.b)-off, depth, 1)
		return
	}
	if isIdent(t) && !isSIDText(t) && !e.ch(e.o.QuoteMore, 1, 5) {
		e.x.put(RToken, depth, []byte(t)...)
		e.x.site("ident", off, len(t), depth, 0)
		return
	}
	if inSexp && !asField && isOperator(t) && !e.ch(e.o.QuoteMore, 1, 3) {
		e.x.put(RToken, depth, []byte(t)...)
		e.x.site("operator", off, len(t), depth, 0)
		return
	}
	body := e.escapedString(t, '\'', false)
	e.x.put(RQuoted, depth, append(append([]byte{'\''}, body...), '\'')...)
	e.x.site("qsymbol", off, len(e.x.b)-off, depth, 0)
}

func underscore(e *textEnc, digits string) string {
	if !e.ch(e.o.Radix, 1, 3) || len(digits) < 2 {
		return digits
	}
	var sb strings.Builder
	for i := 0; i < len(digits); i++ {
		if i > 0 && e.rnd(3) == 0 {
			sb.WriteByte('_')
		}
		sb.WriteByte(digits[i])
	}
	return sb.String()
}

func (e *textEnc) intText(v *big.Int) string {
	neg := v.Sign() < 0
	abs := new(big.Int).Abs(v)
	var s string
	switch {
	case e.ch(e.o.Radix, 1, 4):
		p := "0x"
		if e.rnd(2) == 0 {
			p = "0X"
		}
		h := abs.Text(16)
		if e.rnd(2) == 0 {
			h = strings.ToUpper(h)
		}
		s = p + underscore(e, h)
	case e.ch(e.o.Radix, 1, 5) && abs.BitLen() <= 70:
		p := "0b"
		if e.rnd(2) == 0 {
			p = "0B"
		}
		s = p + underscore(e, abs.Text(2))
	default:
		s = underscore(e, abs.String())
	}
	if neg || (abs.Sign() == 0 && e.ch(e.o.Radix, 1, 6)) {
		s = "-" + s
	}
	return s
}

func (e *textEnc) decText(d *model.Dec) string {
	neg := d.Coef.Sign() < 0 || d.NegZero
	digits := new(big.Int).Abs(d.Coef).String()
	dm := "d"
	if e.ch(e.o.NumForms, 1, 3) {
		dm = "D"
	}
	var s string
	exp := int64(d.Exp)
	form := 0
	if e.o.R != nil && e.o.NumForms {
		form = e.rnd(3)
	}
	switch {
	case form == 1 || (form == 0 && exp < 0 && exp >= -int64(len(digits))+1 && exp > -40):
		// place a decimal point inside the digits when possible
		if exp < 0 && -exp < int64(len(digits)) {
			i := len(digits) + int(exp)
			s = digits[:i] + "." + digits[i:]
		} else if exp < 0 && -exp < 40 {
			s = "0." + strings.Repeat("0", int(-exp)-len(digits)) + digits
			if digits == "0" {
				s = "0." + strings.Repeat("0", int(-exp))
			}
		} else if exp == 0 {
			s = digits + "."
		} else {
			s = digits + dm + strconv.FormatInt(exp, 10)
		}
	case form == 2 && len(digits) > 1:
		// point after the first digit, exponent adjusted
		adj := exp + int64(len(digits)-1)
		s = digits[:1] + "." + digits[1:] + dm + strconv.FormatInt(adj, 10)
	default:
		s = digits + dm + strconv.FormatInt(exp, 10)
		if exp > 0 && e.ch(e.o.NumForms, 1, 3) {
			s = digits + dm + "+" + strconv.FormatInt(exp, 10)
		}
	}
	if neg {
		s = "-" + s
	}
	return s
}

func (e *textEnc) floatText(f float64) string {
	switch {
	case math.IsNaN(f):
		return "nan"
	case math.IsInf(f, 1):
		return "+inf"
	case math.IsInf(f, -1):
		return "-inf"
	}
	s := strconv.FormatFloat(f, 'e', -1, 64) // d.ddde±dd
	i := strings.IndexByte(s, 'e')
	mant, exp := s[:i], s[i+1:]
	en, _ := strconv.Atoi(exp)
	em := "e"
	if e.ch(e.o.NumForms, 1, 3) {
		em = "E"
	}
	es := strconv.Itoa(en)
	if en >= 0 && e.ch(e.o.NumForms, 1, 3) {
		es = "+" + es
	}
	if e.ch(e.o.NumForms, 1, 3) {
		// integer mantissa: move the point to the end
		neg := strings.HasPrefix(mant, "-")
		m := strings.TrimPrefix(mant, "-")
		if j := strings.IndexByte(m, '.'); j >= 0 {
			frac := m[j+1:]
			m = strings.TrimLeft(m[:j]+frac, "0")
			if m == "" {
				m = "0"
			}
			en -= len(frac)
			es = strconv.Itoa(en)
		}
		if neg {
			m = "-" + m
		}
		mant = m
	}
	return mant + em + es
}

func (e *textEnc) tsText(t *model.TS) string {
	var sb strings.Builder
	fmt.Fprintf(&sb, "%04d", t.Year)
	if t.Prec == model.Year {
		return sb.String() + "T"
	}
	fmt.Fprintf(&sb, "-%02d", t.Month)
	if t.Prec == model.Month {
		return sb.String() + "T"
	}
	fmt.Fprintf(&sb, "-%02d", t.Day)
	if t.Prec == model.Day {
		if e.ch(e.o.NumForms, 1, 2) {
			return sb.String() + "T"
		}
		return sb.String()
	}
	fmt.Fprintf(&sb, "T%02d:%02d", t.Hour, t.Minute)
	if t.Prec >= model.Second {
		fmt.Fprintf(&sb, ":%02d", t.Second)
	}
	if t.Prec >= model.Fraction {
		sb.WriteString("." + t.Frac)
	}
	switch {
	case t.Unknown:
		sb.WriteString("-00:00")
	case t.Offset == 0 && !e.ch(e.o.NumForms, 1, 3):
		sb.WriteString("Z")
	default:
		o := t.Offset
		sign := '+'
		if o < 0 {
			sign = '-'
			o = -o
		}
		fmt.Fprintf(&sb, "%c%02d:%02d", sign, o/60, o%60)
	}
	return sb.String()
}

func (e *textEnc) stringValue(s string, depth int) {
	if e.ch(e.o.LongStr, 1, 3) && !e.prevIsLong() {
		// long string, one or more segments
		rs := []rune(s)
		nseg := 1
		if e.rnd(2) == 0 {
			nseg = 1 + e.rnd(3)
		}
		cuts := []int{0}
		for i := 1; i < nseg; i++ {
			cuts = append(cuts, e.rnd(len(rs)+1))
		}
		cuts = append(cuts, len(rs))
		// sort cuts (tiny)
		for i := 1; i < len(cuts); i++ {
			for j := i; j > 0 && cuts[j] < cuts[j-1]; j-- {
				cuts[j], cuts[j-1] = cuts[j-1], cuts[j]
			}
		}
		for i := 0; i+1 < len(cuts); i++ {
			if i > 0 {
				e.ws(depth, !e.o.Dense || e.rnd(2) == 0)
			}
			seg := string(rs[cuts[i]:cuts[i+1]])
			body := e.escapedString(seg, '\'', true)
			off := len(e.x.b)
			e.x.put(RLong, depth, append(append([]byte("'''"), body...), []byte("'''")...)...)
			e.x.site("long-seg", off, len(e.x.b)-off, depth, int64(i))
		}
		return
	}
	off := len(e.x.b)
	body := e.escapedString(s, '"', false)
	e.x.put(RQuoted, depth, append(append([]byte{'"'}, body...), '"')...)
	e.x.site("string", off, len(e.x.b)-off, depth, 0)
}

func (e *textEnc) lobWS() []byte {
	if !e.ch(e.o.LobWS, 1, 2) {
		return nil
	}
	return []byte([]string{" ", "\n", "  ", "\t", "\r\n"}[e.rnd(5)])
}

func (e *textEnc) clobBody(b []byte, long bool) []byte {
	// clobs: 7-bit only, no \u; escapedBytes already escapes >= 0x80 and control characters with \xHH
	save := e.o.Escapes
	out := e.escapedBytes(b, map[bool]byte{false: '"', true: '\''}[long], long)
	e.o.Escapes = save
	return out
}

func (e *textEnc) lob(v *model.Value, depth int) {
	off := len(e.x.b)
	var out []byte
	out = append(out, '{', '{')
	out = append(out, e.lobWS()...)
	if v.Kind == model.Blob {
		enc := base64.StdEncoding.EncodeToString(v.Bytes)
		for i := 0; i < len(enc); i++ {
			if i > 0 && e.ch(e.o.LobWS, 1, 10) {
				out = append(out, e.lobWS()...)
			}
			out = append(out, enc[i])
		}
		out = append(out, e.lobWS()...)
		out = append(out, '}', '}')
		e.x.put(RLob, depth, out...)
		e.x.site("blob", off, len(out), depth, 0)
		return
	}
	if e.ch(e.o.LobWS, 1, 3) {
		nseg := 1 + e.rnd(3)
		cuts := []int{0}
		for i := 1; i < nseg; i++ {
			cuts = append(cuts, e.rnd(len(v.Bytes)+1))
		}
		cuts = append(cuts, len(v.Bytes))
		for i := 1; i < len(cuts); i++ {
			for j := i; j > 0 && cuts[j] < cuts[j-1]; j-- {
				cuts[j], cuts[j-1] = cuts[j-1], cuts[j]
			}
		}
		for i := 0; i+1 < len(cuts); i++ {
			if i > 0 {
				ws := e.lobWS()
				if len(ws) == 0 && e.rnd(2) == 0 {
					ws = []byte{' '}
				}
				out = append(out, ws...)
			}
			out = append(out, '\'', '\'', '\'')
			out = append(out, e.clobBody(v.Bytes[cuts[i]:cuts[i+1]], true)...)
			out = append(out, '\'', '\'', '\'')
		}
		out = append(out, e.lobWS()...)
		out = append(out, '}', '}')
		e.x.put(RLob, depth, out...)
		e.x.site("clob-long", off, len(out), depth, 0)
		return
	}
	out = append(out, '"')
	out = append(out, e.clobBody(v.Bytes, false)...)
	out = append(out, '"')
	out = append(out, e.lobWS()...)
	out = append(out, '}', '}')
	e.x.put(RLob, depth, out...)
	e.x.site("clob-short", off, len(out), depth, 0)
}

var nullNames = map[model.Kind]string{model.Null: "null", model.Bool: "bool", model.Int: "int", model.Float: "float", model.Decimal: "decimal",
	model.Timestamp: "timestamp", model.Symbol: "symbol", model.String: "string", model.Clob: "clob", model.Blob: "blob",
	model.List: "list", model.Sexp: "sexp", model.Struct: "struct"}

func (e *textEnc) token(kind string, s string, depth int, aux int64) {
	off := len(e.x.b)
	e.x.put(RToken, depth, []byte(s)...)
	e.x.site(kind, off, len(s), depth, aux)
}

func (e *textEnc) value(v *model.Value, depth int, inSexp bool) {
	start := len(e.x.b)
	for _, a := range v.Annots {
		e.symbol(a, depth, false, false)
		if e.o.WSAroundAn {
			e.ws(depth, false)
		}
		off := len(e.x.b)
		e.x.put(RAnnotSep, depth, ':', ':')
		e.x.site("annot-sep", off, 2, depth, 0)
		if e.o.WSAroundAn {
			e.ws(depth, false)
		}
	}
	switch {
	case v.Kind == model.Null:
		if e.ch(true, 1, 3) {
			e.token("keyword", "null.null", depth, 0)
		} else {
			e.token("keyword", "null", depth, 0)
		}
	case v.IsNull:
		e.token("keyword", "null."+nullNames[v.Kind], depth, 0)
	default:
		switch v.Kind {
		case model.Bool:
			e.token("keyword", strconv.FormatBool(v.Bool), depth, 0)
		case model.Int:
			e.token("number", e.intText(v.Int), depth, 10)
		case model.Float:
			e.token("number", e.floatText(v.Float()), depth, 11)
		case model.Decimal:
			e.token("number", e.decText(v.Dec), depth, 12)
		case model.Timestamp:
			e.token("timestamp", e.tsText(v.TS), depth, int64(v.TS.Prec))
		case model.Symbol:
			e.symbol(*v.Sym, depth, inSexp, false)
		case model.String:
			e.stringValue(v.Str, depth)
		case model.Clob, model.Blob:
			e.lob(v, depth)
		case model.List, model.Struct, model.Sexp:
			e.container(v, depth)
		}
	}
	e.x.site("value", start, len(e.x.b)-start, depth, int64(v.Kind))
}

func (e *textEnc) container(v *model.Value, depth int) {
	open, cl := byte('['), byte(']')
	if v.Kind == model.Sexp {
		open, cl = '(', ')'
	} else if v.Kind == model.Struct {
		open, cl = '{', '}'
	}
	off := len(e.x.b)
	e.x.put(RPunct, depth, open)
	e.x.site("open", off, 1, depth, int64(v.Kind))
	d := depth + 1
	for i, k := range v.Kids {
		if i > 0 {
			if v.Kind == model.Sexp {
				e.ws(d, e.sepNeeded())
			} else {
				e.ws(d, false)
				co := len(e.x.b)
				e.x.put(RPunct, d, ',')
				e.x.site("comma", co, 1, d, 0)
				e.ws(d, false)
			}
		} else {
			e.ws(d, false)
		}
		if v.Kind == model.Struct {
			e.fieldName(*k.Field, d)
			e.ws(d, false)
			fo := len(e.x.b)
			e.x.put(RFieldSep, d, ':')
			e.x.site("field-sep", fo, 1, d, 0)
			e.ws(d, false)
		}
		e.value(k, d, v.Kind == model.Sexp)
	}
	e.ws(d, false)
	co := len(e.x.b)
	e.x.put(RPunct, d, cl)
	e.x.site("close", co, 1, d, int64(v.Kind))
}

// sepNeeded decides whether the next value of a sequence without commas (top level, s-expression) needs a
// separator: after a closing bracket, a lob or a short string the next token may follow directly ("[1]3", "{}{}",
// "\"a\"b"); the renderer leaves the blank out every other time in dense mode and now and then otherwise.
func (e *textEnc) sepNeeded() bool {
	k := len(e.x.b)
	if k == 0 || e.o.R == nil {
		return true
	}
	last, role := e.x.b[k-1], e.x.m[k-1].Role
	delimiting := (role == RPunct && (last == ']' || last == ')' || last == '}')) || (role == RLob && last == '}') || (role == RQuoted && last == '"')
	if !delimiting {
		return true
	}
	if e.o.Dense {
		return e.rnd(2) == 0
	}
	return e.rnd(6) != 0
}

// prevIsLong reports whether the last significant (non-whitespace, non-comment) byte emitted belongs to a
// long string segment: a long string spelled right after it would be concatenated with it.
func (e *textEnc) prevIsLong() bool {
	for i := len(e.x.m) - 1; i >= 0; i-- {
		switch e.x.m[i].Role {
		case RWS, RLineComment, RBlockComment:
			continue
		case RLong:
			return true
		default:
			return false
		}
	}
	return false
}

func (e *textEnc) fieldName(s model.Sym, depth int) {
	e.symbol(s, depth, false, true)
}

// Text renders items as Ion text.
func Text(items []Item, o TextOpts) *Out {
	e := &textEnc{o: o}
	e.ws(0, false)
	for i, it := range items {
		if i > 0 {
			off := len(e.x.b)
			e.ws(0, e.sepNeeded())
			e.x.site("top-ws", off, len(e.x.b)-off, 0, 0)
		}
		if it.BVM {
			e.token("ivm", "$ion_1_0", 0, 0)
			continue
		}
		e.value(it.V, 0, false)
	}
	e.ws(0, false)
	fixBraces(&e.x)
	return e.x.out()
}

// fixBraces is a safety net: the renderer never intends to emit "{{" or "}}" from two separate struct
// punctuation bytes (that would read as a lob delimiter); if two punct braces are adjacent a space is
// inserted between them.
func fixBraces(x *buf) {
	for i := 0; i+1 < len(x.b); i++ {
		if x.m[i].Role == RPunct && x.m[i+1].Role == RPunct && x.b[i] == x.b[i+1] && x.b[i] == '{' {
			d := x.m[i+1].Depth
			x.b = append(x.b[:i+1], append([]byte{' '}, x.b[i+1:]...)...)
			x.m = append(x.m[:i+1], append([]Mark{{Role: RWS, Depth: d}}, x.m[i+1:]...)...)
			for j := range x.s {
				if x.s[j].Off > i {
					x.s[j].Off++
				} else if x.s[j].Off+x.s[j].Len > i+1 {
					x.s[j].Len++
				}
			}
		}
	}
}

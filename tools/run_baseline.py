#!/usr/bin/env python3
"""Run ion-go's own test suite (guard off) and compare with /root/.vp/BASELINE.json stable_pass."""
import json, subprocess, sys, os
env = dict(os.environ, GOFLAGS="-mod=mod", GOPROXY="off", GOSUMDB="off", GOTOOLCHAIN="local")
p = subprocess.run(["go", "test", "-json", "-vet=off", "-count=1", "-timeout", "25m", "./..."], cwd=sys.argv[1], env=env, capture_output=True, text=True)
passed = set()
for line in p.stdout.splitlines():
    try:
        e = json.loads(line)
    except Exception:
        continue
    if e.get("Action") == "pass" and e.get("Test"):
        passed.add(e["Package"] + "::" + e["Test"])
base = json.load(open("/root/.vp/BASELINE.json"))
want = set(base["stable_pass"])
missing = sorted(want - passed)
print("baseline stable_pass=%d passed_now=%d missing=%d" % (len(want), len(passed & want), len(missing)))
for m in missing[:20]:
    print("  MISSING", m)
sys.exit(1 if missing else 0)

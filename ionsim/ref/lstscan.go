package ref

// InLSTOpenContent reports whether byte offset pos of a binary stream lies inside a value (its type descriptor
// and length included: a skipped value is never decoded, so neither its body nor its type-specific tag / length
// rules are looked at) that a reader of a local symbol table ignores: a non-string element of the symbols list, an import that is
// not a struct, a field of an import other than name / version / max_id (or one of those with an unusable
// type), or any other field of the table struct (open content). It is a shallow scan over lengths only and is
// used solely to give such cases their own known-finding signature; it never decides validity.
func InLSTOpenContent(data []byte, pos int) bool {
	n := len(data)
	p := 0
	for p < n {
		if data[p] == 0xE0 {
			p += 4
			continue
		}
		t, body, end, ok := scanHdr(data, p, n)
		if !ok {
			return false
		}
		if pos >= p && pos < end {
			if t != 14 {
				return false
			}
			al, q, ok := scanVarUInt(data, body, end)
			if !ok || q+al > end {
				return false
			}
			first, _, ok := scanVarUInt(data, q, q+al)
			if !ok || first != 3 {
				return false
			}
			st, sb, se, ok := scanHdr(data, q+al, end)
			if !ok || st != 13 || pos < sb {
				return false
			}
			return scanLSTBody(data, sb, se, pos)
		}
		p = end
	}
	return false
}

func scanVarUInt(data []byte, p, limit int) (int, int, bool) {
	v := 0
	for i := 0; i < 9; i++ {
		if p >= limit || p >= len(data) {
			return 0, p, false
		}
		b := data[p]
		p++
		v = v<<7 | int(b&0x7f)
		if b&0x80 != 0 {
			return v, p, true
		}
	}
	return 0, p, false
}

// scanHdr reads the type descriptor at p: type code, start of the body, end of the value.
func scanHdr(data []byte, p, limit int) (t int, body int, end int, ok bool) {
	if p >= limit || p >= len(data) {
		return 0, 0, 0, false
	}
	b := data[p]
	t = int(b >> 4)
	l := int(b & 0x0f)
	body = p + 1
	switch {
	case l == 15:
		return t, body, body, true
	case t == 1:
		return t, body, body, true
	case l == 14 || (t == 13 && l == 1):
		v, q, ok := scanVarUInt(data, body, limit)
		if !ok {
			return 0, 0, 0, false
		}
		body, l = q, v
	}
	end = body + l
	if end > limit || end < body {
		return 0, 0, 0, false
	}
	return t, body, end, true
}

// within reports whether pos is inside the ignored value. The callers have already established start <= pos < end,
// and a value whose own length overruns its container is refused by scanHdr (ion-go notices that one by length).
func within(pos, body, end int) bool { return pos < end }

func scanLSTBody(data []byte, sb, se, pos int) bool {
	p := sb
	for p < se {
		fid, q, ok := scanVarUInt(data, p, se)
		if !ok {
			return false
		}
		t, vb, ve, ok := scanHdr(data, q, se)
		if !ok {
			return false
		}
		if pos >= q && pos < ve {
			switch fid {
			case 7: // symbols
				if t != 11 {
					return within(pos, vb, ve)
				}
				e := vb
				for e < ve {
					et, eb, ee, ok := scanHdr(data, e, ve)
					if !ok {
						return false
					}
					if pos >= e && pos < ee {
						return et != 8 && within(pos, eb, ee)
					}
					e = ee
				}
				return false
			case 6: // imports
				if t == 7 {
					return false
				}
				if t != 11 {
					return within(pos, vb, ve)
				}
				e := vb
				for e < ve {
					et, eb, ee, ok := scanHdr(data, e, ve)
					if !ok {
						return false
					}
					if pos >= e && pos < ee {
						if et != 13 {
							return within(pos, eb, ee)
						}
						f := eb
						for f < ee {
							id, g, ok := scanVarUInt(data, f, ee)
							if !ok {
								return false
							}
							ft, fb, fe, ok := scanHdr(data, g, ee)
							if !ok {
								return false
							}
							if pos >= g && pos < fe {
								used := (id == 4 && ft == 8) || ((id == 5 || id == 8) && (ft == 2 || ft == 3))
								return !used && within(pos, fb, fe)
							}
							f = fe
						}
						return false
					}
					e = ee
				}
				return false
			default:
				return within(pos, vb, ve)
			}
		}
		p = ve
	}
	return false
}

// Package model is ionsim's own Ion data model. It shares no code and no types with ion-go.
package model

import (
	"bytes"
	"fmt"
	"math"
	"math/big"
	"strconv"
	"strings"
)

type Kind int

const (
	Null Kind = iota
	Bool
	Int
	Float
	Decimal
	Timestamp
	Symbol
	String
	Clob
	Blob
	List
	Sexp
	Struct
)

var kindNames = []string{"null", "bool", "int", "float", "decimal", "timestamp", "symbol", "string", "clob", "blob", "list", "sexp", "struct"}

func (k Kind) String() string {
	if int(k) < len(kindNames) {
		return kindNames[k]
	}
	return "kind" + strconv.Itoa(int(k))
}

func (k Kind) IsContainer() bool { return k == List || k == Sexp || k == Struct }

// Sym is a symbol token: text when known, otherwise a symbol ID.
// ByID asks renderers to spell the token as an ID reference ($n / binary SID) even if text is known
// (used by the symbol-context scenario); the denoted token is still the text.
type Sym struct {
	Text    string `json:"t,omitempty"`
	HasText bool   `json:"h,omitempty"`
	SID     int64  `json:"s,omitempty"`
	ByID    bool   `json:"b,omitempty"`
}

func T(text string) Sym { return Sym{Text: text, HasText: true} }
func ID(sid int64) Sym  { return Sym{SID: sid} }

func (s Sym) String() string {
	if s.HasText {
		return strconv.Quote(s.Text)
	}
	return "$" + strconv.FormatInt(s.SID, 10)
}

// EqualSym compares by text, by ID only when neither has text.
func EqualSym(a, b Sym) bool {
	if a.HasText != b.HasText {
		return false
	}
	if a.HasText {
		return a.Text == b.Text
	}
	return a.SID == b.SID
}

// Precision of a timestamp.
type Precision int

const (
	Year Precision = iota
	Month
	Day
	Minute
	Second
	Fraction
)

// TS is a timestamp in *local* fields plus offset.
type TS struct {
	Prec       Precision `json:"p"`
	Year       int       `json:"y"`
	Month      int       `json:"mo,omitempty"`
	Day        int       `json:"d,omitempty"`
	Hour       int       `json:"h,omitempty"`
	Minute     int       `json:"mi,omitempty"`
	Second     int       `json:"s,omitempty"`
	FracDigits int       `json:"fd,omitempty"` // number of fractional digits (Prec==Fraction => >=1)
	Frac       string    `json:"f,omitempty"`  // exactly FracDigits decimal digits
	Unknown    bool      `json:"u,omitempty"`  // unknown local offset (-00:00); date-only precisions are Unknown
	Offset     int       `json:"o,omitempty"`  // minutes east of UTC when !Unknown
}

// Dec is coefficient * 10^exp with a negative-zero flag.
type Dec struct {
	Coef    *big.Int `json:"c"`
	Exp     int32    `json:"e"`
	NegZero bool     `json:"nz,omitempty"`
}

type Value struct {
	Kind   Kind     `json:"k"`
	IsNull bool     `json:"n,omitempty"`
	Annots []Sym    `json:"a,omitempty"`
	Field  *Sym     `json:"fn,omitempty"`
	Bool   bool     `json:"b,omitempty"`
	Int    *big.Int `json:"i,omitempty"`
	Bits   uint64   `json:"fb,omitempty"` // float64 bits
	Dec    *Dec     `json:"dec,omitempty"`
	TS     *TS      `json:"ts,omitempty"`
	Sym    *Sym     `json:"sy,omitempty"`
	Str    string   `json:"str,omitempty"`
	Bytes  []byte   `json:"by,omitempty"`
	Kids   []*Value `json:"kids,omitempty"`
}

func (v *Value) Float() float64 { return math.Float64frombits(v.Bits) }

func NewNull(k Kind) *Value          { return &Value{Kind: k, IsNull: true} }
func NewBool(b bool) *Value          { return &Value{Kind: Bool, Bool: b} }
func NewInt(i int64) *Value          { return &Value{Kind: Int, Int: big.NewInt(i)} }
func NewBig(i *big.Int) *Value       { return &Value{Kind: Int, Int: new(big.Int).Set(i)} }
func NewFloat(f float64) *Value      { return &Value{Kind: Float, Bits: math.Float64bits(f)} }
func NewString(s string) *Value      { return &Value{Kind: String, Str: s} }
func NewSymbol(s Sym) *Value         { return &Value{Kind: Symbol, Sym: &s} }
func NewLob(k Kind, b []byte) *Value { return &Value{Kind: k, Bytes: append([]byte{}, b...)} }
func NewDec(c *big.Int, e int32, nz bool) *Value {
	return &Value{Kind: Decimal, Dec: &Dec{Coef: new(big.Int).Set(c), Exp: e, NegZero: nz}}
}
func NewTS(t TS) *Value                    { return &Value{Kind: Timestamp, TS: &t} }
func NewSeq(k Kind, kids ...*Value) *Value { return &Value{Kind: k, Kids: kids} }

func (v *Value) With(annots ...Sym) *Value { v.Annots = append(v.Annots, annots...); return v }
func (v *Value) Named(f Sym) *Value        { v.Field = &f; return v }

// Clone deep-copies a value.
func (v *Value) Clone() *Value {
	if v == nil {
		return nil
	}
	c := *v
	c.Annots = append([]Sym(nil), v.Annots...)
	if v.Field != nil {
		f := *v.Field
		c.Field = &f
	}
	if v.Int != nil {
		c.Int = new(big.Int).Set(v.Int)
	}
	if v.Dec != nil {
		d := *v.Dec
		d.Coef = new(big.Int).Set(v.Dec.Coef)
		c.Dec = &d
	}
	if v.TS != nil {
		t := *v.TS
		c.TS = &t
	}
	if v.Sym != nil {
		s := *v.Sym
		c.Sym = &s
	}
	c.Bytes = append([]byte(nil), v.Bytes...)
	c.Kids = nil
	for _, k := range v.Kids {
		c.Kids = append(c.Kids, k.Clone())
	}
	return &c
}

func CloneAll(vs []*Value) []*Value {
	out := make([]*Value, len(vs))
	for i, v := range vs {
		out[i] = v.Clone()
	}
	return out
}

// Size counts nodes.
func (v *Value) Size() int {
	n := 1
	for _, k := range v.Kids {
		n += k.Size()
	}
	return n
}

// Equal is Ion data-model equality as DESIGN.md appendix A states it.
// withField controls whether the field name of the root participates.
func Equal(a, b *Value) bool { return equal(a, b, true) }

func equal(a, b *Value, withField bool) bool {
	if a == nil || b == nil {
		return a == b
	}
	if a.Kind != b.Kind || a.IsNull != b.IsNull {
		return false
	}
	if len(a.Annots) != len(b.Annots) {
		return false
	}
	for i := range a.Annots {
		if !EqualSym(a.Annots[i], b.Annots[i]) {
			return false
		}
	}
	if withField {
		if (a.Field == nil) != (b.Field == nil) {
			return false
		}
		if a.Field != nil && !EqualSym(*a.Field, *b.Field) {
			return false
		}
	}
	if a.IsNull || a.Kind == Null {
		return true
	}
	switch a.Kind {
	case Bool:
		return a.Bool == b.Bool
	case Int:
		return a.Int.Cmp(b.Int) == 0
	case Float:
		fa, fb := a.Float(), b.Float()
		if math.IsNaN(fa) || math.IsNaN(fb) {
			return math.IsNaN(fa) && math.IsNaN(fb)
		}
		return a.Bits == b.Bits
	case Decimal:
		return a.Dec.Coef.Cmp(b.Dec.Coef) == 0 && a.Dec.Exp == b.Dec.Exp && a.Dec.NegZero == b.Dec.NegZero
	case Timestamp:
		return EqualTS(*a.TS, *b.TS)
	case Symbol:
		return EqualSym(*a.Sym, *b.Sym)
	case String:
		return a.Str == b.Str
	case Clob, Blob:
		return bytes.Equal(a.Bytes, b.Bytes)
	case List, Sexp, Struct:
		if len(a.Kids) != len(b.Kids) {
			return false
		}
		for i := range a.Kids {
			if !equal(a.Kids[i], b.Kids[i], true) {
				return false
			}
		}
		return true
	}
	return false
}

// EqualTS: instant, offset (unknown != UTC), precision and fractional digit count.
func EqualTS(a, b TS) bool {
	if a.Prec != b.Prec || a.Unknown != b.Unknown {
		return false
	}
	if !a.Unknown && a.Offset != b.Offset {
		return false
	}
	if a.Year != b.Year {
		return false
	}
	if a.Prec >= Month && a.Month != b.Month {
		return false
	}
	if a.Prec >= Day && a.Day != b.Day {
		return false
	}
	if a.Prec >= Minute && (a.Hour != b.Hour || a.Minute != b.Minute) {
		return false
	}
	if a.Prec >= Second && a.Second != b.Second {
		return false
	}
	if a.Prec >= Fraction && (a.FracDigits != b.FracDigits || a.Frac != b.Frac) {
		return false
	}
	return true
}

func EqualAll(a, b []*Value) bool {
	if len(a) != len(b) {
		return false
	}
	for i := range a {
		if !Equal(a[i], b[i]) {
			return false
		}
	}
	return true
}

// String renders a value in a canonical debugging form (not Ion text).
func (v *Value) String() string {
	var sb strings.Builder
	v.write(&sb)
	return sb.String()
}

func (v *Value) write(sb *strings.Builder) {
	if v.Field != nil {
		sb.WriteString(v.Field.String())
		sb.WriteString(":")
	}
	for _, a := range v.Annots {
		sb.WriteString(a.String())
		sb.WriteString("::")
	}
	if v.IsNull || v.Kind == Null {
		sb.WriteString("null." + v.Kind.String())
		return
	}
	switch v.Kind {
	case Bool:
		fmt.Fprintf(sb, "%v", v.Bool)
	case Int:
		sb.WriteString(v.Int.String())
	case Float:
		fmt.Fprintf(sb, "float(%016x)", v.Bits)
	case Decimal:
		if v.Dec.NegZero {
			sb.WriteString("-")
		}
		fmt.Fprintf(sb, "%sd%d", v.Dec.Coef.String(), v.Dec.Exp)
	case Timestamp:
		sb.WriteString(v.TS.String())
	case Symbol:
		sb.WriteString("sym(" + v.Sym.String() + ")")
	case String:
		sb.WriteString(strconv.Quote(v.Str))
	case Clob:
		fmt.Fprintf(sb, "clob(%x)", v.Bytes)
	case Blob:
		fmt.Fprintf(sb, "blob(%x)", v.Bytes)
	case List, Sexp, Struct:
		open, cl := "[", "]"
		if v.Kind == Sexp {
			open, cl = "(", ")"
		} else if v.Kind == Struct {
			open, cl = "{", "}"
		}
		sb.WriteString(open)
		for i, k := range v.Kids {
			if i > 0 {
				sb.WriteString(",")
			}
			k.write(sb)
		}
		sb.WriteString(cl)
	}
}

func (t TS) String() string {
	s := fmt.Sprintf("ts(p%d %04d-%02d-%02dT%02d:%02d:%02d.%s", t.Prec, t.Year, t.Month, t.Day, t.Hour, t.Minute, t.Second, t.Frac)
	if t.Unknown {
		return s + " unk)"
	}
	return s + fmt.Sprintf(" %+d)", t.Offset)
}

// DaysIn returns the number of days in a month (proleptic Gregorian).
func DaysIn(year, month int) int {
	switch month {
	case 4, 6, 9, 11:
		return 30
	case 2:
		if year%4 == 0 && (year%100 != 0 || year%400 == 0) {
			return 29
		}
		return 28
	}
	return 31
}

// civil <-> days since 0000-03-01 style helpers, used to move between local and UTC fields.
func daysFromCivil(y, m, d int) int64 {
	yy := int64(y)
	if m <= 2 {
		yy--
	}
	var era int64
	if yy >= 0 {
		era = yy / 400
	} else {
		era = (yy - 399) / 400
	}
	yoe := yy - era*400
	mm := int64(m)
	var doy int64
	if mm > 2 {
		doy = (153*(mm-3)+2)/5 + int64(d) - 1
	} else {
		doy = (153*(mm+9)+2)/5 + int64(d) - 1
	}
	doe := yoe*365 + yoe/4 - yoe/100 + doy
	return era*146097 + doe - 719468
}

func civilFromDays(z int64) (int, int, int) {
	z += 719468
	var era int64
	if z >= 0 {
		era = z / 146097
	} else {
		era = (z - 146096) / 146097
	}
	doe := z - era*146097
	yoe := (doe - doe/1460 + doe/36524 - doe/146096) / 365
	y := yoe + era*400
	doy := doe - (365*yoe + yoe/4 - yoe/100)
	mp := (5*doy + 2) / 153
	d := doy - (153*mp+2)/5 + 1
	var m int64
	if mp < 10 {
		m = mp + 3
	} else {
		m = mp - 9
	}
	if m <= 2 {
		y++
	}
	return int(y), int(m), int(d)
}

// Shift returns the fields moved by deltaMinutes (used for local<->UTC conversion).
// Only meaningful for Prec >= Minute.
func (t TS) Shift(deltaMinutes int) TS {
	if t.Prec < Minute || deltaMinutes == 0 {
		return t
	}
	total := int64(t.Hour*60+t.Minute) + int64(deltaMinutes)
	days := daysFromCivil(t.Year, t.Month, t.Day)
	for total < 0 {
		total += 1440
		days--
	}
	for total >= 1440 {
		total -= 1440
		days++
	}
	t.Year, t.Month, t.Day = civilFromDays(days)
	t.Hour = int(total / 60)
	t.Minute = int(total % 60)
	return t
}

// UTC returns the UTC fields of a timestamp with a known offset.
func (t TS) UTC() TS {
	if t.Unknown {
		return t
	}
	return t.Shift(-t.Offset)
}

package ref

import (
	"encoding/hex"
	"math"
	"math/big"
	"math/rand"
	"strings"
	"testing"

	"ionsim/model"
)

const bTestBVM = "E0 01 00 EA "

func bHex(t *testing.T, s string) []byte {
	t.Helper()
	b, err := hex.DecodeString(strings.Join(strings.Fields(s), ""))
	if err != nil {
		t.Fatalf("bad hex %q: %v", s, err)
	}
	return b
}

func bBigHex(s string) *big.Int {
	v, _ := new(big.Int).SetString(s, 16)
	return v
}

func bDecNeg(c int64, e int32) *model.Value { return model.NewDec(big.NewInt(c), e, false) }

func bSym(text string) *model.Value { return model.NewSymbol(model.T(text)) }

func bVals(vs ...*model.Value) []*model.Value { return vs }

type bOK struct {
	name string
	hex  string // without the leading version marker
	want []*model.Value
}

func bRunOK(t *testing.T, cases []bOK) {
	t.Helper()
	for _, c := range cases {
		data := bHex(t, bTestBVM+c.hex)
		res, err := DecodeBinary(data, Options{})
		if err != nil {
			t.Errorf("%s: unexpected error %v", c.name, err)
			continue
		}
		if !model.EqualAll(res.Values, c.want) {
			t.Errorf("%s: got %v want %v", c.name, res.Values, c.want)
		}
		if len(res.MaxIDs) != len(res.Values) {
			t.Errorf("%s: %d MaxIDs for %d values", c.name, len(res.MaxIDs), len(res.Values))
		}
	}
}

func TestBinScalars(t *testing.T) {
	bRunOK(t, []bOK{
		{"only bvm", "", nil},
		{"null.null", "0F", bVals(model.NewNull(model.Null))},
		{"null.bool", "1F", bVals(model.NewNull(model.Bool))},
		{"null.int pos", "2F", bVals(model.NewNull(model.Int))},
		{"null.int neg", "3F", bVals(model.NewNull(model.Int))},
		{"null.float", "4F", bVals(model.NewNull(model.Float))},
		{"null.decimal", "5F", bVals(model.NewNull(model.Decimal))},
		{"null.timestamp", "6F", bVals(model.NewNull(model.Timestamp))},
		{"null.symbol", "7F", bVals(model.NewNull(model.Symbol))},
		{"null.string", "8F", bVals(model.NewNull(model.String))},
		{"null.clob", "9F", bVals(model.NewNull(model.Clob))},
		{"null.blob", "AF", bVals(model.NewNull(model.Blob))},
		{"null.list", "BF", bVals(model.NewNull(model.List))},
		{"null.sexp", "CF", bVals(model.NewNull(model.Sexp))},
		{"null.struct", "DF", bVals(model.NewNull(model.Struct))},

		{"bools", "10 11", bVals(model.NewBool(false), model.NewBool(true))},

		{"int zero", "20", bVals(model.NewInt(0))},
		{"int zero padded", "21 00", bVals(model.NewInt(0))},
		{"int 1", "21 01", bVals(model.NewInt(1))},
		{"int leading zero", "22 00 FF", bVals(model.NewInt(255))},
		{"int -1", "31 01", bVals(model.NewInt(-1))},
		{"int -256 padded", "33 00 01 00", bVals(model.NewInt(-256))},
		{"int 2^64-1", "28 FF FF FF FF FF FF FF FF", bVals(model.NewBig(bBigHex("FFFFFFFFFFFFFFFF")))},
		{"int varuint length", "2E 81 05", bVals(model.NewInt(5))},
		{"int over-padded varuint length", "2E 00 00 81 05", bVals(model.NewInt(5))},
		{"int 14 octets", "2E 8E 01 00 00 00 00 00 00 00 00 00 00 00 00 00",
			bVals(model.NewBig(new(big.Int).Lsh(big.NewInt(1), 104)))},

		{"float zero", "40", bVals(model.NewFloat(0))},
		{"float32", "44 3F C0 00 00", bVals(model.NewFloat(1.5))},
		{"float64", "48 3F F8 00 00 00 00 00 00", bVals(model.NewFloat(1.5))},
		{"float64 -0", "48 80 00 00 00 00 00 00 00", bVals(model.NewFloat(math.Copysign(0, -1)))},
		{"float32 +inf", "44 7F 80 00 00", bVals(model.NewFloat(math.Inf(1)))},
		{"float32 nan", "44 7F C0 00 00", bVals(model.NewFloat(math.NaN()))},

		{"decimal L0", "50", bVals(bDecNeg(0, 0))},
		{"decimal exp only", "51 80", bVals(bDecNeg(0, 0))},
		{"decimal 0d-2", "51 C2", bVals(bDecNeg(0, -2))},
		{"decimal 15d-1", "52 C1 0F", bVals(bDecNeg(15, -1))},
		{"decimal -15d-1", "52 C1 8F", bVals(bDecNeg(-15, -1))},
		{"decimal 1d3", "52 83 01", bVals(bDecNeg(1, 3))},
		{"decimal -0d0", "52 80 80", bVals(model.NewDec(new(big.Int), 0, true))},
		{"decimal -0d-1 padded", "53 C1 80 00", bVals(model.NewDec(new(big.Int), -1, true))},
		{"decimal padded coefficient", "53 C1 00 0F", bVals(bDecNeg(15, -1))},
		{"decimal exponent negative zero", "52 C0 01", bVals(bDecNeg(1, 0))},
		{"decimal two-octet exponent", "53 01 80 01", bVals(bDecNeg(1, 128))},
		{"decimal min int32 exponent", "55 48 00 00 00 80", bVals(bDecNeg(0, math.MinInt32))},
		{"decimal big coefficient", "5A C1 01 00 00 00 00 00 00 00 00",
			bVals(model.NewDec(new(big.Int).Lsh(big.NewInt(1), 64), -1, false))},

		{"symbol $0", "70", bVals(model.NewSymbol(model.ID(0)))},
		{"symbol $0 padded", "71 00", bVals(model.NewSymbol(model.ID(0)))},
		{"symbol name", "71 04", bVals(bSym("name"))},
		{"symbol padded id", "73 00 00 09", bVals(bSym("$ion_shared_symbol_table"))},

		{"string empty", "80", bVals(model.NewString(""))},
		{"string abc", "83 61 62 63", bVals(model.NewString("abc"))},
		{"string utf8", "84 F0 9F 98 80", bVals(model.NewString("\U0001F600"))},
		{"string 14 octets", "8E 8E 61 61 61 61 61 61 61 61 61 61 61 61 61 61", bVals(model.NewString("aaaaaaaaaaaaaa"))},
		{"clob", "92 01 FF", bVals(model.NewLob(model.Clob, []byte{1, 0xFF}))},
		{"clob empty", "90", bVals(model.NewLob(model.Clob, nil))},
		{"blob", "A2 01 FF", bVals(model.NewLob(model.Blob, []byte{1, 0xFF}))},
	})
}

func TestBinContainers(t *testing.T) {
	name, version := model.T("name"), model.T("version")
	bRunOK(t, []bOK{
		{"empty containers", "B0 C0 D0", bVals(model.NewSeq(model.List), model.NewSeq(model.Sexp), model.NewSeq(model.Struct))},
		{"list", "B2 10 11", bVals(model.NewSeq(model.List, model.NewBool(false), model.NewBool(true)))},
		{"sexp", "C1 11", bVals(model.NewSeq(model.Sexp, model.NewBool(true)))},
		{"nested", "B3 B2 C1 0F", bVals(model.NewSeq(model.List, model.NewSeq(model.List, model.NewSeq(model.Sexp, model.NewNull(model.Null)))))},
		{"list varuint length", "BE 82 10 11", bVals(model.NewSeq(model.List, model.NewBool(false), model.NewBool(true)))},
		{"struct", "D2 84 11", bVals(model.NewSeq(model.Struct, model.NewBool(true).Named(name)))},
		{"struct varuint length", "DE 82 84 11", bVals(model.NewSeq(model.Struct, model.NewBool(true).Named(name)))},
		{"struct padded field id", "D3 00 84 11", bVals(model.NewSeq(model.Struct, model.NewBool(true).Named(name)))},
		{"struct $0 field", "D2 80 11", bVals(model.NewSeq(model.Struct, model.NewBool(true).Named(model.ID(0))))},
		{"struct repeated field", "D4 84 11 84 10", bVals(model.NewSeq(model.Struct, model.NewBool(true).Named(name), model.NewBool(false).Named(name)))},
		{"ordered struct", "D1 82 84 11", bVals(model.NewSeq(model.Struct, model.NewBool(true).Named(name)))},
		{"ordered struct two fields", "D1 84 84 11 85 10", bVals(model.NewSeq(model.Struct, model.NewBool(true).Named(name), model.NewBool(false).Named(version)))},

		{"nop top level", "00 01 FF 0E 82 AA BB 11", bVals(model.NewBool(true))},
		{"nop only", "00", nil},
		{"nop contents are arbitrary", "03 E0 01 F0 11", bVals(model.NewBool(true))},
		{"nop in list", "B3 00 11 00", bVals(model.NewSeq(model.List, model.NewBool(true)))},
		{"nop in sexp", "C3 01 FF 11", bVals(model.NewSeq(model.Sexp, model.NewBool(true)))},
		{"nop in struct", "D4 84 00 85 11", bVals(model.NewSeq(model.Struct, model.NewBool(true).Named(version)))},
		{"nop in struct ignores field id", "D2 FF 00", bVals(model.NewSeq(model.Struct))},
		{"nop in ordered struct", "D1 83 84 01 FF", bVals(model.NewSeq(model.Struct))},

		{"annotated bool", "E3 81 84 11", bVals(model.NewBool(true).With(name))},
		{"two annotations", "E4 82 84 85 11", bVals(model.NewBool(true).With(name, version))},
		{"annotation padded id", "E4 82 00 84 11", bVals(model.NewBool(true).With(name))},
		{"annotation $0", "E3 81 80 11", bVals(model.NewBool(true).With(model.ID(0)))},
		{"annotated null", "E3 81 84 0F", bVals(model.NewNull(model.Null).With(name))},
		{"annotated list", "E5 81 84 B2 10 11", bVals(model.NewSeq(model.List, model.NewBool(false), model.NewBool(true)).With(name))},
		{"annotation varuint length", "EE 83 81 84 11", bVals(model.NewBool(true).With(name))},
		{"annotated in list", "B4 E3 81 84 11", bVals(model.NewSeq(model.List, model.NewBool(true).With(name)))},
		{"annotated struct field", "D5 85 E3 81 84 11", bVals(model.NewSeq(model.Struct, model.NewBool(true).With(name).Named(version)))},
		{"nested lst is a user value", "BA E9 81 83 D6 87 B4 81 61 81 62",
			bVals(model.NewSeq(model.List, model.NewSeq(model.Struct,
				model.NewSeq(model.List, model.NewString("a"), model.NewString("b")).Named(model.T("symbols"))).With(model.T("$ion_symbol_table"))))},
	})
}

func TestBinTimestamps(t *testing.T) {
	ts := func(x model.TS) []*model.Value { return bVals(model.NewTS(x)) }
	bRunOK(t, []bOK{
		{"year", "63 C0 0F D0", ts(model.TS{Prec: model.Year, Year: 2000, Unknown: true})},
		{"year offset zero is still unknown", "63 80 0F D0", ts(model.TS{Prec: model.Year, Year: 2000, Unknown: true})},
		{"year with nonzero offset", "63 BC 0F D0", ts(model.TS{Prec: model.Year, Year: 2000, Unknown: true})},
		{"month", "64 C0 0F D0 82", ts(model.TS{Prec: model.Month, Year: 2000, Month: 2, Unknown: true})},
		{"day leap", "65 C0 0F D0 82 9D", ts(model.TS{Prec: model.Day, Year: 2000, Month: 2, Day: 29, Unknown: true})},
		{"minute Z", "67 80 0F D0 81 81 80 80", ts(model.TS{Prec: model.Minute, Year: 2000, Month: 1, Day: 1})},
		{"minute unknown", "67 C0 0F D0 81 81 80 80", ts(model.TS{Prec: model.Minute, Year: 2000, Month: 1, Day: 1, Unknown: true})},
		{"minute unknown padded", "68 40 80 0F D0 81 81 80 80", ts(model.TS{Prec: model.Minute, Year: 2000, Month: 1, Day: 1, Unknown: true})},
		{"minute +01:00", "67 BC 0F CF 8C 9F 97 9E",
			ts(model.TS{Prec: model.Minute, Year: 2000, Month: 1, Day: 1, Hour: 0, Minute: 30, Offset: 60})},
		{"second -08:00", "69 43 E0 0F D0 81 81 88 80 80",
			ts(model.TS{Prec: model.Second, Year: 2000, Month: 1, Day: 1, Offset: -480})},
		{"second -00:01 crosses year", "68 C1 0F D0 81 81 80 80 BB",
			ts(model.TS{Prec: model.Second, Year: 1999, Month: 12, Day: 31, Hour: 23, Minute: 59, Second: 59, Offset: -1})},
		{"fraction", "6A 80 0F D0 81 81 80 80 80 C3 19",
			ts(model.TS{Prec: model.Fraction, Year: 2000, Month: 1, Day: 1, FracDigits: 3, Frac: "025"})},
		{"fraction coefficient absent", "69 80 0F D0 81 81 80 80 80 C2",
			ts(model.TS{Prec: model.Fraction, Year: 2000, Month: 1, Day: 1, FracDigits: 2, Frac: "00"})},
		{"fraction padded coefficient", "6B 80 0F D0 81 81 80 80 80 C3 00 19",
			ts(model.TS{Prec: model.Fraction, Year: 2000, Month: 1, Day: 1, FracDigits: 3, Frac: "025"})},
		{"fraction 0d0 is second precision", "69 80 0F D0 81 81 80 80 80 80",
			ts(model.TS{Prec: model.Second, Year: 2000, Month: 1, Day: 1})},
		{"fraction 0d2 is second precision", "6A 80 0F D0 81 81 80 80 80 82 00",
			ts(model.TS{Prec: model.Second, Year: 2000, Month: 1, Day: 1})},
		{"fraction 0d-0 is second precision", "69 80 0F D0 81 81 80 80 80 C0",
			ts(model.TS{Prec: model.Second, Year: 2000, Month: 1, Day: 1})},
		{"max", "68 80 4E 8F 8C 9F 97 BB BB",
			ts(model.TS{Prec: model.Second, Year: 9999, Month: 12, Day: 31, Hour: 23, Minute: 59, Second: 59})},
		{"varuint length", "6E 87 80 0F D0 81 81 80 80", ts(model.TS{Prec: model.Minute, Year: 2000, Month: 1, Day: 1})},
	})
}

// $ion_symbol_table::{symbols:["a"]}
const bTestLST = "E7 81 83 D4 87 B2 81 61 "

// $ion_symbol_table::{imports:$ion_symbol_table, symbols:["b"]}
const bTestLSTAppend = "EA 81 83 D7 86 71 03 87 B2 81 62 "

// $ion_symbol_table::{imports:[{name:"x"}]}
const bTestLSTImportNoMax = "E9 81 83 D6 86 B4 D3 84 81 78 "

func TestBinSymbolTables(t *testing.T) {
	bRunOK(t, []bOK{
		{"lst then sid 10", bTestLST + "71 0A", bVals(bSym("a"))},
		{"lst is consumed", bTestLST, nil},
		{"lst field and annotation", bTestLST + "E5 81 8A D2 8A 11",
			bVals(model.NewSeq(model.Struct, model.NewBool(true).Named(model.T("a"))).With(model.T("a")))},
		{"lst append", bTestLST + bTestLSTAppend + "71 0A 71 0B", bVals(bSym("a"), bSym("b"))},
		{"lst replace", bTestLST + "E7 81 83 D4 87 B2 81 62 71 0A", bVals(bSym("b"))},
		{"lst non-string symbol is a gap", "E7 81 83 D4 87 B2 11 0F 71 0A 71 0B",
			bVals(model.NewSymbol(model.ID(10)), model.NewSymbol(model.ID(11)))},
		{"bvm resets", bTestLST + "71 0A E0 01 00 EA 71 04", bVals(bSym("a"), bSym("name"))},
		{"lst with second annotation", "E8 82 83 84 D4 87 B2 81 61 71 0A", bVals(bSym("a"))},
		{"lst annotation second is a user value", "E4 82 84 83 D0",
			bVals(model.NewSeq(model.Struct).With(model.T("name"), model.T("$ion_symbol_table")))},
	})

	// MaxIDs and Contexts.
	data := bHex(t, bTestBVM+"11 "+bTestLST+"71 0A "+bTestLSTAppend+"71 0B E0 01 00 EA 10")
	res, err := DecodeBinary(data, Options{KeepContexts: true})
	if err != nil {
		t.Fatalf("unexpected error %v", err)
	}
	wantMax := []int64{9, 10, 11, 9}
	if len(res.MaxIDs) != len(wantMax) || len(res.Contexts) != len(wantMax) {
		t.Fatalf("MaxIDs %v Contexts %d", res.MaxIDs, len(res.Contexts))
	}
	for i, m := range wantMax {
		if res.MaxIDs[i] != m || int64(len(res.Contexts[i])) != m {
			t.Errorf("value %d: MaxID %d context len %d, want %d", i, res.MaxIDs[i], len(res.Contexts[i]), m)
		}
	}
	if s := res.Contexts[2][10]; !s.Known || s.Text != "b" {
		t.Errorf("context slot 11 = %+v", s)
	}
	if s := res.Contexts[0][8]; !s.Known || s.Text != "$ion_shared_symbol_table" {
		t.Errorf("context copy was clobbered: %+v", s)
	}
	if res2, _ := DecodeBinary(data, Options{}); res2 == nil || res2.Contexts != nil {
		t.Errorf("Contexts kept without KeepContexts")
	}

	// Imports through a catalog.
	cat := &model.Catalog{Tables: []model.Shared{{Name: "x", Version: 1, Symbols: []string{"p", "q"}}}}
	data = bHex(t, bTestBVM+bTestLSTImportNoMax+"71 0A 71 0B")
	res, err = DecodeBinary(data, Options{Catalog: cat})
	if err != nil {
		t.Fatalf("unexpected error %v", err)
	}
	if !model.EqualAll(res.Values, bVals(bSym("p"), bSym("q"))) || res.MaxIDs[1] != 11 {
		t.Errorf("catalog import: got %v %v", res.Values, res.MaxIDs)
	}
	// {imports:[{name:"y", max_id:2}]} without a catalog: two unknown-text slots.
	data = bHex(t, bTestBVM+"EC 81 83 D9 86 B7 D6 84 81 79 88 21 02 71 0B")
	res, err = DecodeBinary(data, Options{})
	if err != nil {
		t.Fatalf("unexpected error %v", err)
	}
	if !model.EqualAll(res.Values, bVals(model.NewSymbol(model.ID(11)))) || res.MaxIDs[0] != 11 {
		t.Errorf("unknown import: got %v %v", res.Values, res.MaxIDs)
	}
}

func bNest(depth int) []byte {
	cur := []byte{0xB0}
	for i := 0; i < depth; i++ {
		n := len(cur)
		var hdr []byte
		if n < 14 {
			hdr = []byte{byte(0xB0 | n)}
		} else {
			var vu []byte
			vu = append(vu, byte(n&0x7F)|0x80)
			for n >>= 7; n > 0; n >>= 7 {
				vu = append([]byte{byte(n & 0x7F)}, vu...)
			}
			hdr = append([]byte{0xBE}, vu...)
		}
		cur = append(hdr, cur...)
	}
	return cur
}

func TestBinErrors(t *testing.T) {
	type bad struct {
		name   string
		hex    string // complete stream
		rule   string
		unsure bool
	}
	v := bTestBVM
	ts := "80 0F D0 81 81 80 80 80 " // 2000-01-01T00:00:00Z body without fraction (8 octets)
	cases := []bad{
		{"empty", "", "bin.no-leading-bvm", false},
		{"no bvm", "10", "bin.no-leading-bvm", false},
		{"short bvm", "E0 01 00", "bin.no-leading-bvm", false},
		{"mangled bvm", "E0 01 00 EB", "bin.no-leading-bvm", false},
		{"version 2.0", "E0 02 00 EA", "bin.bad-version", false},
		{"version 1.1 mid-stream", v + "E0 01 01 EA", "bin.bad-version", false},
		{"mangled bvm mid-stream", v + "E0 01 00 00", "bin.bad-version", false},
		{"short bvm mid-stream", v + "E0 01", "bin.truncated", false},
		{"bvm in list", v + "B4 E0 01 00 EA", "bin.bvm-in-container", false},
		{"bvm in struct", v + "D5 84 E0 01 00 EA", "bin.bvm-in-container", false},
		{"bvm in wrapper", v + "E6 81 84 E0 01 00 EA", "bin.bvm-in-container", false},
		{"varuint too large", v + "2E 7F 7F 7F 7F 7F 7F 7F 7F 7F FF", "bin.varuint-too-large", true},
		{"varuint 2^63", v + "2E 01 00 00 00 00 00 00 00 00 80", "bin.varuint-too-large", true},
		{"field id too large", v + "DC 7F 7F 7F 7F 7F 7F 7F 7F 7F FF 11 11", "bin.varuint-too-large", true},
		{"annotated nop", v + "E3 81 84 00", "bin.annot-wraps-nop", false},
		{"annotated long nop", v + "E4 81 84 01 FF", "bin.annot-wraps-nop", false},
		{"bool L=2", v + "12", "bin.bool-bad-length", false},
		{"bool L=14", v + "1E 80", "bin.bool-bad-length", false},
		{"negative zero L=0", v + "30", "bin.negative-zero-int", false},
		{"negative zero L=1", v + "31 00", "bin.negative-zero-int", false},
		{"negative zero L=2", v + "32 00 00", "bin.negative-zero-int", false},
		{"float L=2", v + "42 00 00", "bin.float-bad-length", false},
		{"float L=14 length 8", v + "4E 88 00 00 00 00 00 00 00 00", "bin.float-varuint-length", true},
		{"float L=14 length 3", v + "4E 83 00 00 00", "bin.float-bad-length", false},
		{"decimal exponent 2^31", v + "55 08 00 00 00 80", "bin.decimal-exponent-range", true},
		{"decimal exponent unterminated", v + "51 00", "bin.subfield-overruns-value", false},
		{"ts hour only", v + "66 80 0F D0 81 81 80", "bin.ts-hour-without-minute", false},
		{"ts month 13", v + "64 80 0F D0 8D", "bin.ts-bad-field", false},
		{"ts month 0", v + "64 80 0F D0 80", "bin.ts-bad-field", false},
		{"ts feb 30", v + "65 80 0F D0 82 9E", "bin.ts-bad-field", false},
		{"ts feb 29 non-leap", v + "65 80 0F CF 82 9D", "bin.ts-bad-field", false},
		{"ts day 0", v + "65 80 0F D0 82 80", "bin.ts-bad-field", false},
		{"ts year 0", v + "62 80 80", "bin.ts-bad-field", false},
		{"ts year 10000", v + "63 80 4E 90", "bin.ts-bad-field", false},
		{"ts hour 24", v + "67 80 0F D0 81 81 98 80", "bin.ts-bad-field", false},
		{"ts minute 60", v + "67 80 0F D0 81 81 80 BC", "bin.ts-bad-field", false},
		{"ts second 60", v + "68 80 0F D0 81 81 80 80 BC", "bin.ts-bad-field", false},
		{"ts L=0", v + "60", "bin.ts-too-short", false},
		{"ts L=1", v + "61 80", "bin.ts-too-short", false},
		{"ts varuint L=1", v + "6E 81 80", "bin.ts-too-short", false},
		{"ts year unterminated", v + "62 80 0F", "bin.subfield-overruns-value", false},
		{"ts offset 24h", v + "68 0B A0 0F D0 81 81 80 80", "bin.ts-offset-range", true},
		{"ts fraction 1d0", v + "6A " + ts + "80 01", "bin.ts-fraction-nonneg-exp", true},
		{"ts fraction 1d1", v + "6A " + ts + "81 01", "bin.ts-fraction-nonneg-exp", true},
		{"ts fraction 10d-1", v + "6A " + ts + "C1 0A", "bin.ts-fraction-range", false},
		{"ts fraction -1d-1", v + "6A " + ts + "C1 81", "bin.ts-fraction-range", false},
		{"ts fraction -0d-1", v + "6A " + ts + "C1 80", "bin.ts-fraction-negzero", true},
		{"ts fraction 41 digits", v + "6A " + ts + "E9 01", "bin.ts-fraction-too-long", true},
		{"ts local year 10000", v + "67 BC 4E 8F 8C 9F 97 9E", "bin.ts-local-year-range", true},
		{"ts local year 0", v + "66 C1 81 81 81 80 80", "bin.ts-local-year-range", true},
		{"symbol id 10", v + "71 0A", "bin.symbol-id-out-of-range", false},
		{"symbol id after reset", v + bTestLST + "71 0A E0 01 00 EA 71 0A", "bin.symbol-id-out-of-range", false},
		{"symbol 9 octets", v + "79 00 00 00 00 00 00 00 00 01", "bin.symbol-id-too-large", true},
		{"symbol 2^63", v + "78 80 00 00 00 00 00 00 00", "bin.symbol-id-too-large", true},
		{"string bad utf8", v + "81 FF", "bin.string-invalid-utf8", false},
		{"string surrogate", v + "83 ED A0 80", "bin.string-invalid-utf8", false},
		{"string overlong", v + "82 C0 80", "bin.string-invalid-utf8", false},
		{"string cut utf8", v + "81 C3", "bin.string-invalid-utf8", false},
		{"ordered struct empty", v + "D1 80", "bin.ordered-struct-empty", false},
		{"ordered struct unsorted", v + "D1 84 85 11 84 11", "bin.ordered-struct-unsorted", true},
		{"field id 10", v + "D2 8A 11", "bin.field-id-out-of-range", false},
		{"annot_length zero", v + "E3 80 84 11", "bin.annot-empty", false},
		{"annot id runs past annot_length", v + "E4 81 04 84 11", "bin.annot-length-mismatch", false},
		{"annot_length exceeds wrapper", v + "E3 83 84 11", "bin.annot-length-mismatch", false},
		{"annot_length unterminated", v + "E3 00 00 00", "bin.annot-length-mismatch", false},
		{"annot wraps annot", v + "E6 81 84 E3 81 84 11", "bin.annot-wraps-annot", false},
		{"annot value shorter", v + "E4 81 84 11 11", "bin.annot-value-length-mismatch", false},
		{"annot value longer", v + "E3 81 84 21 01", "bin.annot-value-length-mismatch", false},
		{"annot value length cut", v + "E3 81 84 2E 81 01", "bin.annot-value-length-mismatch", false},
		{"annot no value", v + "E3 82 84 85", "bin.annot-no-value", false},
		{"annot null", v + "EF", "bin.annot-null", false},
		{"annot null in list", v + "B1 EF", "bin.annot-null", false},
		{"annot id 10", v + "E3 81 8A 11", "bin.annot-id-out-of-range", false},
		{"annot L=1", v + "E1 81", "bin.annot-too-short", false},
		{"annot L=2", v + "E2 81 84", "bin.annot-too-short", false},
		{"annot varuint L=2", v + "EE 82 81 84", "bin.annot-too-short", false},
		{"reserved type", v + "F0", "bin.reserved-type", false},
		{"reserved type null", v + "FF", "bin.reserved-type", false},
		{"reserved type in list", v + "B1 F0", "bin.reserved-type", false},
		{"kid overruns list", v + "B2 22 01", "bin.length-overruns-container", false},
		{"kid overruns sexp", v + "C1 81 61", "bin.length-overruns-container", false},
		{"kid length cut in list", v + "B1 2E 81 01", "bin.length-overruns-container", false},
		{"kid overruns struct", v + "D3 84 22 01", "bin.length-overruns-container", false},
		{"field id without value", v + "D1 81 84 11", "bin.length-overruns-container", false},
		{"field id cut", v + "D3 84 00 04", "bin.length-overruns-container", false},
		{"nop overruns list", v + "B1 01 FF", "bin.length-overruns-container", false},
		{"kid overruns wrapped list", v + "E5 81 84 B2 11 21 01", "bin.length-overruns-container", false},
		{"truncated int", v + "21", "bin.truncated", false},
		{"truncated length", v + "2E", "bin.truncated", false},
		{"truncated length varuint", v + "2E 01", "bin.truncated", false},
		{"truncated list", v + "B2 10", "bin.truncated", false},
		{"truncated nop", v + "02 00", "bin.truncated", false},
		{"truncated wrapper", v + "E3 81 84", "bin.truncated", false},
		{"truncated after value", v + "11 83 61", "bin.truncated", false},
		{"import without max_id", v + bTestLSTImportNoMax, "sym.import-no-max-id", false},
		{"null lst", v + "E3 81 83 DF", "sym.null-lst", true},
		{"top-level $ion_1_0 symbol", v + "71 02", "bin.toplevel-ion-1-0-symbol", true},
		{"depth limit", v + hex.EncodeToString(bNest(bMaxDepth+5)), "bin.depth-limit", true},
	}
	for _, c := range cases {
		res, err := DecodeBinary(bHex(t, c.hex), Options{})
		if err == nil {
			t.Errorf("%s: no error, values %v", c.name, res.Values)
			continue
		}
		if res != nil {
			t.Errorf("%s: result returned together with an error", c.name)
		}
		if err.Rule != c.rule || err.Unsure != c.unsure {
			t.Errorf("%s: got %v, want rule %s unsure=%v", c.name, err, c.rule, c.unsure)
		}
	}

	// Things that look like errors above but are legal.
	bRunOK(t, []bOK{
		{"$ion_1_0 annotated", "E4 81 84 71 02", bVals(bSym("$ion_1_0").With(model.T("name")))},
		{"$ion_1_0 in list", "B2 71 02", bVals(model.NewSeq(model.List, bSym("$ion_1_0")))},
	})
	if res, err := DecodeBinary(append(bHex(t, bTestBVM), bNest(bMaxDepth-1)...), Options{}); err != nil || len(res.Values) != 1 {
		t.Errorf("nesting of %d rejected: %v", bMaxDepth-1, err)
	}
}

func TestBinErrorPos(t *testing.T) {
	_, err := DecodeBinary(bHex(t, bTestBVM+"11 B3 10 F0 11"), Options{})
	if err == nil || err.Rule != "bin.reserved-type" || err.Pos != 7 {
		t.Errorf("got %v, want bin.reserved-type at 7", err)
	}
	_, err = DecodeBinary(bHex(t, bTestBVM+"11 21"), Options{})
	if err == nil || err.Rule != "bin.truncated" || err.Pos != 5 {
		t.Errorf("got %v, want bin.truncated at 5", err)
	}
}

// TestBinNeverPanics feeds pseudo-random and mutated streams; any panic would surface as internal.panic.
func TestBinNeverPanics(t *testing.T) {
	rng := rand.New(rand.NewSource(20260922))
	seeds := [][]byte{
		bHex(t, bTestBVM+bTestLST+"71 0A "+bTestLSTAppend+"71 0B"),
		bHex(t, bTestBVM+"6A 80 0F D0 81 81 80 80 80 C3 19 52 C1 8F D1 84 84 11 85 10"),
		bHex(t, bTestBVM+"E5 81 84 B2 10 11 BE 82 10 11 EC 81 83 D9 86 B7 D6 84 81 79 88 21 02 71 0B"),
	}
	interesting := []byte{0x00, 0x0E, 0x0F, 0x80, 0x81, 0xC0, 0xE0, 0xEA, 0xEE, 0xD1, 0xDE, 0x6E, 0x7F, 0xFF, 0xB4, 0xE3, 0x83, 0x87, 0x86}
	for i := 0; i < 200000; i++ {
		var data []byte
		if i%2 == 0 {
			n := rng.Intn(40)
			data = bHex(t, bTestBVM)
			for j := 0; j < n; j++ {
				if rng.Intn(3) == 0 {
					data = append(data, interesting[rng.Intn(len(interesting))])
				} else {
					data = append(data, byte(rng.Intn(256)))
				}
			}
		} else {
			data = append([]byte{}, seeds[rng.Intn(len(seeds))]...)
			for k := rng.Intn(4) + 1; k > 0; k-- {
				switch rng.Intn(3) {
				case 0:
					data[rng.Intn(len(data))] = byte(rng.Intn(256))
				case 1:
					data = data[:rng.Intn(len(data)+1)]
				default:
					p := rng.Intn(len(data) + 1)
					data = append(data[:p], append([]byte{interesting[rng.Intn(len(interesting))]}, data[p:]...)...)
				}
				if len(data) == 0 {
					break
				}
			}
		}
		res, err := DecodeBinary(data, Options{KeepContexts: true})
		if (res == nil) == (err == nil) {
			t.Fatalf("input %x: res=%v err=%v", data, res, err)
		}
		if err != nil {
			if strings.HasPrefix(err.Rule, "internal.") {
				t.Fatalf("input %x: %v", data, err)
			}
			if err.Pos < 0 || err.Pos > len(data) {
				t.Fatalf("input %x: position %d out of range (%v)", data, err.Pos, err)
			}
		}
	}
}

// Command dbg prints what a replay file's writer program emits (developer aid).
package main

import (
	"encoding/json"
	"fmt"
	"io/ioutil"
	"os"

	"ionsim/drive"
	"ionsim/model"
	"ionsim/ref"
	"ionsim/sim"
)

func main() {
	b, _ := ioutil.ReadFile(os.Args[1])
	var rf struct {
		Case struct {
			Cfg   drive.WriterCfg `json:"cfg"`
			Ops   []drive.WOp     `json:"ops"`
			WPlan sim.WritePlan   `json:"wplan"`
		} `json:"case"`
	}
	json.Unmarshal(b, &rf)
	oc := drive.RunWrite(rf.Case.Cfg, rf.Case.Ops, rf.Case.WPlan, true)
	for i, op := range rf.Case.Ops {
		fmt.Printf("%2d %-12s err=%q\n", i, op.Op, oc.Errs[i])
	}
	fmt.Printf("bytes=%x\n", oc.Sink.Accepted)
	fmt.Printf("text=%q\n", oc.Sink.Accepted)
	cat := &model.Catalog{Tables: rf.Case.Cfg.Shared}
	res, err := ref.DecodeBinary(oc.Sink.Accepted, ref.Options{Catalog: cat})
	fmt.Println(res, err)
}

#!/bin/bash
# usage: sigs.sh <prop> <indices> : print unique violation signatures with first detail line (dev helper)
IONSIM_INDICES=$2 /verif/ionsim.sh check $1 quick 2>&1 | grep -A1 "^violation" | grep -v "^--" | cut -c1-330

#!/usr/bin/env python3
"""Copy confirmed seeded defects from /tmp/seedout/<id>/ into /verif/seeded/<id>/ (patch.diff, demo, notes.md, meta.json)."""
import json, os, shutil, sys, re
src_root = "/tmp/seedout"
for name in sorted(os.listdir(src_root)):
    d = os.path.join(src_root, name)
    if not os.path.exists(os.path.join(d, "patch.diff")) or not os.path.exists(os.path.join(d, "eval.json")):
        continue
    ev = json.load(open(os.path.join(d, "eval.json")))
    dst = os.path.join("/verif/seeded", name)
    os.makedirs(dst, exist_ok=True)
    for f in os.listdir(d):
        if f in ("eval.json",):
            continue
        if os.path.isfile(os.path.join(d, f)):
            shutil.copy(os.path.join(d, f), os.path.join(dst, f))
    prop = re.match(r"(C\d+)", name).group(1)
    notes = open(os.path.join(d, "notes.md")).read() if os.path.exists(os.path.join(d, "notes.md")) else ""
    meta_path = os.path.join(dst, "meta.json")
    meta = json.load(open(meta_path)) if os.path.exists(meta_path) else {}
    meta.update({
        "id": name,
        "property": prop,
        "origin": "independent sub-agent given only the property text and a scratch worktree",
        "needs_to_manifest": meta.get("needs_to_manifest") or (notes.split("\n\n")[0][:1200] if notes else ""),
        "confirmed_by_me": {k: ev.get(k) for k in ("demo_clean_pass", "patch_applies", "demo_patched_fails", "baseline_missing_with_patch") if k in ev} or meta.get("confirmed_by_me"),
        "what_i_ran": "tools/seedeval.py: scratch worktree under /tmp (demo passes clean, patch applies, baseline suite missing=0 with patch, demo fails with patch); then git -C /repo apply patch.diff, ./ionsim.sh check %s quick, git -C /repo checkout -- ." % prop,
    })
    hist = meta.get("check_history", [])
    hist.append({"checks": ev.get("checks"), "tier": ev.get("tier")})
    meta["check_history"] = hist
    meta["caught_by_quick"] = [p for p, r in ev.get("checks", {}).items() if r["exit"] == 1]
    json.dump(meta, open(meta_path, "w"), indent=1)
    print(name, "->", dst, "caught:", meta["caught_by_quick"])

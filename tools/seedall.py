#!/usr/bin/env python3
"""Re-run every kept seeded change in /verif/seeded against the registered quick check of its property.
usage: tools/seedall.py [name-prefix]   — applies each patch to /repo, runs the check, restores /repo."""
import json, os, subprocess, sys, time
pref = sys.argv[1] if len(sys.argv) > 1 else ""
root = "/verif/seeded"
res = {}
for name in sorted(os.listdir(root)):
    if not name.startswith(pref): continue
    d = os.path.join(root, name)
    if not os.path.isdir(d): continue
    meta = json.load(open(os.path.join(d, "meta.json")))
    if meta.get("neutralised_by_fix"):
        print("%-8s skipped (neutralised by fix %s)" % (name, meta["neutralised_by_fix"])); continue
    prop = (meta.get("check_with") or [meta["property"]])[0]
    if subprocess.run(["git", "-C", "/repo", "status", "--porcelain"], capture_output=True, text=True).stdout.strip():
        print("REFUSING: /repo has local changes"); sys.exit(2)
    if subprocess.run(["git", "-C", "/repo", "apply", os.path.join(d, "patch.diff")]).returncode != 0:
        print("%-8s PATCH DOES NOT APPLY" % name); res[name] = "noapply"; continue
    t0 = time.time()
    try:
        p = subprocess.run(["/verif/ionsim.sh", "check", prop, "quick"], capture_output=True, text=True, cwd="/verif")
    finally:
        subprocess.run(["git", "-C", "/repo", "checkout", "--", "."])
        subprocess.run("git -C /verif checkout -- evidence; rm -f /verif/replays/*.json", shell=True)
    sigs = sorted({l.split("signature=")[1].split(" (seed")[0] for l in p.stdout.splitlines() if l.startswith("violation:")})
    res[name] = p.returncode
    print("%-8s exit=%d %.0fs %s" % (name, p.returncode, time.time() - t0, "; ".join(sigs)[:200]), flush=True)
missed = [n for n, r in res.items() if r != 1]
print("caught %d of %d; not caught: %s" % (len(res) - len(missed), len(res), missed))
json.dump({"results": res, "summary": "caught %d of %d runnable; not caught: %s" % (len(res) - len(missed), len(res), missed)}, open("/verif/seeded/last_run.json", "w"), indent=1)

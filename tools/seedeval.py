#!/usr/bin/env python3
"""Confirm a seeded defect and run ionsim checks against it.

usage: seedeval.py <dir with patch.diff + demo> <PROP>[,PROP...] [--tier quick|thorough] [--skip-confirm] [--seed N]

1. in a scratch worktree of /repo (under /tmp, removed afterwards): demo passes on the clean tree; with the patch the
   library builds, the baseline suite still passes (missing=0, demo absent) and the demo fails;
2. applies the patch to /repo, runs the named checks, and restores /repo (git checkout -- .).
Writes <dir>/eval.json and prints a summary line.
"""
import json, os, re, subprocess, sys, shutil, time

ENV = dict(os.environ, GOFLAGS="-mod=mod", GOPROXY="off", GOSUMDB="off", GOTOOLCHAIN="local")

def sh(cmd, cwd=None, timeout=3600):
    p = subprocess.run(cmd, cwd=cwd, env=ENV, shell=isinstance(cmd, str), capture_output=True, text=True, timeout=timeout)
    return p.returncode, p.stdout + p.stderr

def baseline(wt):
    rc, out = sh(["python3", "/verif/tools/run_baseline.py", wt])
    m = re.search(r"missing=(\d+)", out)
    return (int(m.group(1)) if m else -1), out.strip().splitlines()[-1:] 

def main():
    args = sys.argv[1:]
    d = os.path.abspath(args[0]); props = args[1].split(",")
    tier = "quick"; skip = False; seed = None
    i = 2
    while i < len(args):
        if args[i] == "--tier": tier = args[i+1]; i += 2
        elif args[i] == "--skip-confirm": skip = True; i += 1
        elif args[i] == "--seed": seed = args[i+1]; i += 2
        else: i += 1
    patch = os.path.join(d, "patch.diff")
    res = {"dir": d, "props": props, "tier": tier}
    demos = [f for f in os.listdir(d) if f.endswith("_test.go")]
    if not skip:
        wt = "/tmp/wt/eval-%d" % os.getpid()
        sh(["git", "-C", "/repo", "worktree", "add", "--detach", wt, "HEAD"])
        try:
            names = []
            for f in demos:
                src = open(os.path.join(d, f)).read()
                names += re.findall(r"^func (Test\w+)\(", src, re.M)
                shutil.copy(os.path.join(d, f), os.path.join(wt, "ion", "zz_" + f))
            run = "^(" + "|".join(names) + ")$"
            race = ["-race"] if os.path.exists(os.path.join(d, "NEEDS_RACE")) else []
            def demo():
                rc, out = sh(["go", "test", "-vet=off", "-count=1"] + race + ["-run", run, "./ion"], cwd=wt)
                return rc, out[-1500:]
            if names:
                rc, out = demo(); res["demo_clean_pass"] = (rc == 0); res["demo_clean_tail"] = out[-300:]
            rc, out = sh(["git", "apply", patch], cwd=wt); res["patch_applies"] = (rc == 0)
            if names:
                rc, out = demo(); res["demo_patched_fails"] = (rc != 0); res["demo_patched_tail"] = out[-600:]
            for f in demos:
                os.remove(os.path.join(wt, "ion", "zz_" + f))
            miss, tail = baseline(wt); res["baseline_missing_with_patch"] = miss
        finally:
            sh(["git", "-C", "/repo", "worktree", "remove", "--force", wt])
    # run checks against /repo with the patch applied
    rc, out = sh(["git", "-C", "/repo", "status", "--porcelain"])
    if out.strip():
        print("REFUSING: /repo has local changes"); sys.exit(2)
    rc, out = sh(["git", "-C", "/repo", "apply", patch])
    if rc != 0:
        print("patch does not apply to /repo:", out); sys.exit(2)
    res["checks"] = {}
    try:
        for p in props:
            env = dict(ENV)
            if seed: env["VERIF_SEED"] = seed
            t0 = time.time()
            pr = subprocess.run(["/verif/ionsim.sh", "check", p, tier], env=env, capture_output=True, text=True, cwd="/verif")
            lines = [l for l in pr.stdout.splitlines() if l.startswith("VIOLATION") or l.startswith("violation:") or l.startswith("KNOWN-FINDING")]
            res["checks"][p] = {"exit": pr.returncode, "wall_s": round(time.time() - t0, 1), "lines": lines[:12]}
    finally:
        sh(["git", "-C", "/repo", "checkout", "--", "."])
        # evidence files were rewritten by the runs against the patched tree: restore the committed ones
        sh("git -C /verif checkout -- evidence 2>/dev/null; true")
    json.dump(res, open(os.path.join(d, "eval.json"), "w"), indent=1)
    caught = [p for p, r in res["checks"].items() if r["exit"] == 1]
    print("SEED %s confirm=%s caught_by=%s exits=%s" % (os.path.basename(d),
          {k: v for k, v in res.items() if k in ("demo_clean_pass", "demo_patched_fails", "baseline_missing_with_patch", "patch_applies")},
          caught, {p: r["exit"] for p, r in res["checks"].items()}))

main()

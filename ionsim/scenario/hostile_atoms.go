package scenario

import (
	"math/big"

	"ionsim/prng"
)

// Correctly framed binary values whose *fields* take extreme values: unlike the byte-level "extremize" faults,
// the enclosing lengths stay consistent, so the value reaches the code that interprets the field instead of
// failing the length checks first. Written from the Ion 1.0 binary format; no ion-go code involved.

var extremeMagnitudes = []uint64{0, 1, 9, 10, 20, 21, 63, 64, 100, 1000, 1 << 14, 100000, 1000000, 3000000, 10000000,
	1<<31 - 10, 1<<31 - 9, 1<<31 - 1, 1 << 31, 1<<31 + 1, 1<<32 - 1, 1 << 32, 1 << 40, 1<<63 - 1, 1 << 63, 1<<64 - 1}

func pickMagnitude(r *prng.Rand) uint64 {
	if r.Chance(1, 4) {
		return uint64(r.Intn(40))
	}
	return extremeMagnitudes[r.Intn(len(extremeMagnitudes))]
}

// varIntBytes encodes sign and magnitude as a VarInt.
func varIntBytes(mag uint64, neg bool) []byte {
	// collect 7-bit groups, the first octet holds only 6 bits
	var groups []byte
	for mag >= 0x40 {
		groups = append([]byte{byte(mag & 0x7f)}, groups...)
		mag >>= 7
	}
	first := byte(mag)
	if neg {
		first |= 0x40
	}
	out := append([]byte{first}, groups...)
	out[len(out)-1] |= 0x80
	return out
}

func uintBytes(v uint64) []byte {
	var out []byte
	for sh := 56; sh >= 0; sh -= 8 {
		if b := byte(v >> uint(sh)); b != 0 || len(out) > 0 {
			out = append(out, b)
		}
	}
	return out
}

// tlv frames a payload: type code, inline or VarUInt length.
func tlv(t byte, payload []byte) []byte {
	if len(payload) < 14 && !(t == 13 && len(payload) == 1) {
		return append([]byte{t<<4 | byte(len(payload))}, payload...)
	}
	out := append([]byte{t<<4 | 14}, varUIntBytes(uint64(len(payload)), false)...)
	return append(out, payload...)
}

func intField(mag uint64, neg bool) []byte {
	b := uintBytes(mag)
	if len(b) == 0 {
		if neg {
			return []byte{0x80}
		}
		return nil
	}
	if b[0]&0x80 != 0 {
		b = append([]byte{0}, b...)
	}
	if neg {
		b[0] |= 0x80
	}
	return b
}

// hostileAtom returns one correctly framed value with extreme fields.
// varUInt10 encodes a 64-bit value as a 10-octet VarUInt (the longest form a 64-bit reader has to accept).
func varUInt10(v uint64) []byte {
	out := make([]byte, 10)
	for i := 9; i >= 0; i-- {
		out[i] = byte(v & 0x7f)
		v >>= 7
	}
	out[9] |= 0x80
	return out
}

// wrapAroundAtom: an annotation wrapper whose annot_length exceeds the wrapper, inside a list, followed by a value
// whose 10-octet VarUInt length equals what "wrapper length - annot_length" gives when computed in unsigned 64-bit
// arithmetic. Every single field is a legal encoding; only their relation is impossible.
func wrapAroundAtom(r *prng.Rand) []byte {
	w := uint64(r.Range(2, 4))         // declared wrapper length
	a := w - 1 + uint64(r.Range(1, 4)) // annot_length: more than the wrapper has left
	wrapper := []byte{0xe0 | byte(w), 0x80 | byte(a)}
	for k := uint64(1); k < w; k++ {
		wrapper = append(wrapper, 0x84) // annotation IDs inside the wrapper
	}
	list := append([]byte{0xb0 | byte(len(wrapper))}, wrapper...)
	out := list
	for k := w - 1; k < a; k++ {
		out = append(out, 0x84) // the IDs the loop takes from beyond the list
	}
	remaining := w - 1 - a // wraps around
	out = append(out, 0x8e)
	out = append(out, varUInt10(remaining-11)...)
	return append(out, 0x20, 0x20, 0x20)
}

func hostileAtom(r *prng.Rand) ([]byte, string) {
	if r.Chance(1, 24) {
		return wrapAroundAtom(r), "length-relation-wraps-around"
	}
	switch r.Intn(9) {
	case 0: // decimal: extreme exponent, assorted coefficients
		p := varIntBytes(pickMagnitude(r), r.Bool())
		switch r.Intn(4) {
		case 0: // zero coefficient (absent)
		case 1:
			p = append(p, 0x80) // negative zero
		case 2:
			p = append(p, intField(pickMagnitude(r), r.Bool())...)
		default:
			p = append(p, intField(uint64(r.Intn(1000)), r.Bool())...)
		}
		return tlv(5, p), "decimal"
	case 1, 2: // timestamp: ordinary fields, extreme fraction exponent / coefficient, or one extreme calendar field
		off := varIntBytes(uint64(r.Intn(3))*uint64(r.Intn(800)), r.Bool())
		if r.Chance(1, 4) {
			off = []byte{0xc0}
		}
		if r.Chance(1, 6) {
			off = varIntBytes(pickMagnitude(r), r.Bool())
		}
		fields := []uint64{uint64(1 + r.Intn(9999)), uint64(1 + r.Intn(12)), uint64(1 + r.Intn(28)), uint64(r.Intn(24)), uint64(r.Intn(60)), uint64(r.Intn(60))}
		if r.Chance(1, 4) {
			fields[r.Intn(6)] = pickMagnitude(r)
		}
		n := []int{1, 2, 3, 5, 6, 6, 6}[r.Intn(7)]
		if r.Chance(1, 3) {
			// an otherwise ordinary timestamp to the fraction of a second whose offset lies far outside a day
			off = varIntBytes([]uint64{1439, 1440, 1441, 5999, 6000, 6001, 16384, 100000, 1 << 31}[r.Intn(9)], r.Bool())
			p := append([]byte(nil), off...)
			for i := 0; i < 6; i++ {
				p = append(p, varUIntBytes(fields[i], false)...)
			}
			digits := r.Range(1, 9)
			coef := uint64(1)
			for k := 0; k < digits; k++ {
				coef = coef*10 + uint64(1+r.Intn(9))
			}
			lim := uint64(1)
			for k := 0; k < digits; k++ {
				lim *= 10
			}
			coef %= lim
			p = append(p, varIntBytes(uint64(digits), true)...)
			p = append(p, intField(coef, false)...)
			return tlv(6, p), "timestamp-far-offset"
		}
		p := append([]byte(nil), off...)
		for i := 0; i < n; i++ {
			p = append(p, varUIntBytes(fields[i], false)...)
		}
		if n == 6 && r.Chance(4, 5) {
			p = append(p, varIntBytes(pickMagnitude(r), r.Chance(2, 3))...)
			switch r.Intn(4) {
			case 0:
			case 1:
				p = append(p, 0x80)
			case 2:
				p = append(p, intField(pickMagnitude(r), r.Chance(1, 8))...)
			default:
				p = append(p, intField(uint64(r.Intn(1000)), false)...)
			}
		}
		return tlv(6, p), "timestamp"
	case 3: // int with many magnitude bytes
		m := make([]byte, []int{0, 1, 8, 9, 16, 64, 200}[r.Intn(7)])
		for i := range m {
			m[i] = byte(r.Intn(256))
		}
		if r.Chance(1, 3) {
			for i := range m {
				m[i] = 0xff
			}
		} else if r.Chance(1, 2) && len(m) > 0 {
			// a small value behind a long run of zero octets (a non-minimal encoding no writer produces)
			for i := range m {
				m[i] = 0
			}
			m[len(m)-1] = byte(r.Intn(128))
			if len(m) > 2 && r.Bool() {
				m[len(m)-2] = byte(r.Intn(256))
			}
		}
		return tlv(byte(2+r.Intn(2)), m), "int"
	case 4: // symbol with an extreme ID
		return tlv(7, uintBytes(pickMagnitude(r))), "symbol"
	case 5: // struct whose field IDs are extreme
		var p []byte
		for k := r.Range(1, 3); k > 0; k-- {
			p = append(p, varUIntBytes(pickMagnitude(r), false)...)
			p = append(p, 0x20+byte(r.Intn(2)))
			if p[len(p)-1] == 0x21 {
				p = append(p, byte(r.Intn(256)))
			}
		}
		return tlv(13, p), "struct-fieldid"
	case 6: // annotation wrapper with extreme annotation IDs
		var ids []byte
		for k := r.Range(1, 3); k > 0; k-- {
			ids = append(ids, varUIntBytes(pickMagnitude(r), false)...)
		}
		inner, _ := hostileAtom(r)
		if inner[0]>>4 == 14 {
			inner = []byte{0x20}
		}
		p := append(varUIntBytes(uint64(len(ids)), false), ids...)
		return tlv(14, append(p, inner...)), "annotation"
	case 7: // float of each legal length with extreme bit patterns
		switch r.Intn(3) {
		case 0:
			return []byte{0x40}, "float"
		case 1:
			b := []byte{0x44, 0, 0, 0, 0}
			for i := 1; i < 5; i++ {
				b[i] = []byte{0x00, 0x7f, 0x80, 0xff, 0x01}[r.Intn(5)]
			}
			return b, "float"
		}
		b := []byte{0x48, 0, 0, 0, 0, 0, 0, 0, 0}
		for i := 1; i < 9; i++ {
			b[i] = []byte{0x00, 0x7f, 0x80, 0xff, 0xf0, 0x01}[r.Intn(6)]
		}
		return b, "float"
	default: // list / sexp holding atoms
		var p []byte
		for k := r.Range(1, 3); k > 0; k-- {
			a, _ := hostileAtom(r)
			p = append(p, a...)
		}
		return tlv(byte(11+r.Intn(2)), p), "container"
	}
}

// hostileAtomsDoc builds a binary stream of extreme atoms, optionally preceded by a local symbol table whose
// import declares an extreme max_id and version.
func hostileAtomsDoc(r *prng.Rand) ([]byte, []string) {
	out := []byte{0xe0, 0x01, 0x00, 0xea}
	var kinds []string
	if r.Chance(1, 3) {
		// $ion_symbol_table::{imports:[{name:"sh", version:V, max_id:M}], symbols:["s"]}
		imp := []byte{0x84, 0x82, 's', 'h'}
		imp = append(imp, 0x85)
		imp = append(imp, tlv(2, uintBytes(pickMagnitude(r)))...)
		imp = append(imp, 0x88)
		imp = append(imp, tlv(byte(2+r.Intn(2)), uintBytes(pickMagnitude(r)))...)
		body := append([]byte{0x86}, tlv(11, tlv(13, imp))...)
		body = append(body, 0x87)
		body = append(body, tlv(11, []byte{0x81, 's'})...)
		st := tlv(13, body)
		out = append(out, tlv(14, append([]byte{0x81, 0x83}, st...))...)
		kinds = append(kinds, "lst-extreme-import")
	}
	for k := r.Range(1, 4); k > 0; k-- {
		a, kind := hostileAtom(r)
		out = append(out, a...)
		kinds = append(kinds, kind)
	}
	return out, kinds
}

// fractionNotBelowOne builds a correctly framed binary timestamp (to the second, UTC) whose fractional seconds are one
// or more: the coefficient is at least 10^digits, with magnitudes around 2^63 and 2^64 and beyond among them.
func fractionNotBelowOne(r *prng.Rand) []byte {
	digits := r.Range(1, 12)
	pow := new(big.Int).Exp(big.NewInt(10), big.NewInt(int64(digits)), nil)
	coef := new(big.Int)
	switch r.Intn(7) {
	case 0:
		coef.Set(pow)
	case 1:
		coef.Add(pow, big.NewInt(int64(1+r.Intn(9))))
	case 2:
		coef.Lsh(big.NewInt(1), 63)
	case 3:
		coef.Lsh(big.NewInt(1), 64)
	case 4:
		coef.Add(new(big.Int).Lsh(big.NewInt(1), 64), big.NewInt(int64(r.Intn(1000))))
	case 5:
		coef.Mul(new(big.Int).Lsh(big.NewInt(1), 64), big.NewInt(int64(1+r.Intn(2000))))
		coef.Add(coef, big.NewInt(int64(r.Intn(1000))))
	default:
		coef.Mul(pow, big.NewInt(int64(2+r.Intn(1000000))))
	}
	if coef.Cmp(pow) < 0 {
		coef.Add(coef, pow)
	}
	mag := coef.Bytes()
	if mag[0]&0x80 != 0 {
		mag = append([]byte{0}, mag...)
	}
	p := []byte{0x80}
	for _, f := range []uint64{uint64(1970 + r.Intn(60)), uint64(1 + r.Intn(12)), uint64(1 + r.Intn(28)), uint64(r.Intn(24)), uint64(r.Intn(60)), uint64(r.Intn(60))} {
		p = append(p, varUIntBytes(f, false)...)
	}
	p = append(p, varIntBytes(uint64(digits), true)...)
	p = append(p, mag...)
	return tlv(6, p)
}

// framedInvalidAtom returns a correctly framed binary value that is malformed in itself: a timestamp fraction not below
// one, a float whose size (spelled with the VarUInt form) is not 0, 4 or 8, or a day that its month does not have
// (29 February of a year that is no leap year — century years included — 30 February, 31 April).
func framedInvalidAtom(r *prng.Rand) ([]byte, string) {
	switch r.Intn(3) {
	case 0:
		return fractionNotBelowOne(r), "timestamp-fraction-not-below-one(framed)"
	case 1:
		n := []int{1, 2, 3, 5, 6, 7, 9, 16}[r.Intn(8)]
		return append([]byte{0x4e, 0x80 | byte(n)}, make([]byte, n)...), "float-bad-size-long-form(framed)"
	}
	year, month, day := uint64(1900), uint64(2), uint64(29)
	switch r.Intn(5) {
	case 0:
		year = []uint64{1700, 1800, 1900, 2100, 2200, 2300}[r.Intn(6)]
	case 1:
		year = uint64(4*r.Range(476, 524) + 1 + r.Intn(3))
	case 2:
		year, day = uint64(r.Range(1, 9999)), 30
	case 3:
		year, month, day = uint64(r.Range(1, 9999)), []uint64{4, 6, 9, 11}[r.Intn(4)], 31
	default:
		year, month, day = uint64(r.Range(1, 9999)), uint64(r.Range(1, 12)), 32
	}
	p := []byte{0x80}
	p = append(p, varUIntBytes(year, false)...)
	p = append(p, varUIntBytes(month, false)...)
	p = append(p, varUIntBytes(day, false)...)
	if r.Bool() {
		p = append(p, 0x80, 0x80) // hour and minute
	}
	return tlv(6, p), "timestamp-day-not-in-month(framed)"
}

package ref

// Independent, specification-derived parser for Ion 1.0 text. Shares no code with ion-go.

import (
	"encoding/base64"
	"fmt"
	"math"
	"math/big"
	"strconv"
	"unicode/utf8"

	"ionsim/model"
)

const tMaxDepth = 5000

// tBail carries a classified error up to DecodeText.
type tBail struct{ err *Error }

type textParser struct {
	d     []byte
	pos   int
	ctx   *model.Context
	opt   Options
	depth int
}

// token classes (can the token be an annotation / what kind of symbol-like token is it)
const (
	tTokValue   = iota // not symbol-like
	tTokIdent          // unquoted identifier symbol
	tTokQuoted         // quoted symbol
	tTokSID            // $n
	tTokOp             // operator symbol (sexp only)
	tTokKeyword        // null, null.type, true, false, nan
)

type tTok struct {
	v    *model.Value
	kind int
	raw  string // identifier text for tTokIdent
	sid  int64  // for tTokSID
}

// DecodeText parses a complete Ion 1.0 text stream. It returns the user values (the version marker symbol
// and local symbol tables are consumed and applied to the symbol context; they never appear in Values),
// or a classified *Error for the first grammar violation.
func DecodeText(data []byte, opt Options) (res *Result, rerr *Error) {
	p := &textParser{d: data, ctx: model.NewContext(), opt: opt}
	defer func() {
		if r := recover(); r != nil {
			res = nil
			if b, ok := r.(tBail); ok && b.err != nil {
				rerr = b.err
				return
			}
			rerr = &Error{Rule: "internal.panic", Pos: p.pos, Unsure: true, Detail: fmt.Sprint(r)}
		}
	}()
	if !utf8.Valid(data) {
		i := 0
		for i < len(data) {
			r, sz := utf8.DecodeRune(data[i:])
			if r == utf8.RuneError && sz <= 1 {
				break
			}
			i += sz
		}
		return nil, &Error{Rule: "text.invalid-utf8", Pos: i}
	}
	if len(data) >= 3 && data[0] == 0xEF && data[1] == 0xBB && data[2] == 0xBF {
		return nil, &Error{Rule: "text.byte-order-mark", Pos: 0, Unsure: true}
	}
	out := &Result{}
	for {
		p.skipWS(true)
		if p.eof() {
			break
		}
		c := p.d[p.pos]
		if c == ',' {
			p.fail("text.comma-at-top-level", p.pos, "")
		}
		if c == ']' || c == '}' || c == ')' {
			p.fail("text.unexpected-closer", p.pos, "closer at top level")
		}
		start := p.pos
		v, tok := p.parseValue(false)
		if len(v.Annots) == 0 && tok.kind == tTokIdent {
			if tok.raw == "$ion_1_0" {
				p.ctx.Reset()
				continue
			}
			if tIsVersionLike(tok.raw) {
				p.unsure("text.unsupported-version", start, tok.raw)
			}
		}
		if len(v.Annots) == 0 && tok.kind == tTokSID && tok.sid == 2 {
			p.unsure("text.sid-version-marker", start, "top-level $2")
		}
		if v.Kind == model.Struct && len(v.Annots) > 0 && v.Annots[0].HasText && v.Annots[0].Text == "$ion_symbol_table" {
			if v.IsNull {
				p.unsure("sym.null-lst", start, "")
			}
			if model.IsLST(v) {
				decl := model.DeclFromStruct(v)
				if err := p.ctx.Apply(decl, opt.Catalog); err != nil {
					p.fail("sym.import-no-max-id", start, err.Error())
				}
				continue
			}
		}
		out.Values = append(out.Values, v)
		out.MaxIDs = append(out.MaxIDs, p.ctx.MaxID())
		if opt.KeepContexts {
			out.Contexts = append(out.Contexts, append([]model.Slot(nil), p.ctx.Slots...))
		}
	}
	return out, nil
}

func tIsVersionLike(s string) bool {
	const pre = "$ion_"
	if len(s) <= len(pre) || s[:len(pre)] != pre {
		return false
	}
	i := len(pre)
	j := i
	for j < len(s) && tIsDigit(s[j]) {
		j++
	}
	if j == i || j >= len(s) || s[j] != '_' {
		return false
	}
	k := j + 1
	m := k
	for m < len(s) && tIsDigit(s[m]) {
		m++
	}
	return m > k && m == len(s)
}

func (p *textParser) fail(rule string, pos int, detail string) {
	panic(tBail{&Error{Rule: rule, Pos: pos, Detail: detail}})
}

func (p *textParser) unsure(rule string, pos int, detail string) {
	panic(tBail{&Error{Rule: rule, Pos: pos, Unsure: true, Detail: detail}})
}

func (p *textParser) eof() bool { return p.pos >= len(p.d) }

// at returns the byte at offset i, or 0 when out of range (0 is never a meaningful grammar byte).
func (p *textParser) at(i int) byte {
	if i < 0 || i >= len(p.d) {
		return 0
	}
	return p.d[i]
}

func (p *textParser) hasPrefix(s string) bool {
	if p.pos+len(s) > len(p.d) {
		return false
	}
	for i := 0; i < len(s); i++ {
		if p.d[p.pos+i] != s[i] {
			return false
		}
	}
	return true
}

func tIsWS(c byte) bool {
	return c == ' ' || c == '\t' || c == '\n' || c == '\r' || c == 0x0B || c == 0x0C
}
func tIsDigit(c byte) bool { return c >= '0' && c <= '9' }
func tIsHex(c byte) bool {
	return tIsDigit(c) || (c >= 'a' && c <= 'f') || (c >= 'A' && c <= 'F')
}
func tHexVal(c byte) int {
	switch {
	case c >= '0' && c <= '9':
		return int(c - '0')
	case c >= 'a' && c <= 'f':
		return int(c-'a') + 10
	default:
		return int(c-'A') + 10
	}
}
func tIsIdentStart(c byte) bool {
	return (c >= 'a' && c <= 'z') || (c >= 'A' && c <= 'Z') || c == '_' || c == '$'
}
func tIsIdentPart(c byte) bool { return tIsIdentStart(c) || tIsDigit(c) }
func tIsOp(c byte) bool {
	switch c {
	case '!', '#', '%', '&', '*', '+', '-', '.', '/', ';', '<', '=', '>', '?', '@', '^', '`', '|', '~':
		return true
	}
	return false
}

// skipWS skips whitespace and (when comments is true) comments.
func (p *textParser) skipWS(comments bool) {
	for p.pos < len(p.d) {
		c := p.d[p.pos]
		if tIsWS(c) {
			p.pos++
			continue
		}
		if comments && c == '/' && p.at(p.pos+1) == '/' {
			p.pos += 2
			for p.pos < len(p.d) && p.d[p.pos] != '\n' {
				if p.d[p.pos] == '\r' && p.at(p.pos+1) != '\n' {
					// is a lone CR an end of line for a // comment? not certain.
					p.unsure("text.cr-in-line-comment", p.pos, "")
				}
				p.pos++
			}
			continue
		}
		if comments && c == '/' && p.at(p.pos+1) == '*' {
			start := p.pos
			p.pos += 2
			closed := false
			for p.pos < len(p.d) {
				if p.d[p.pos] == '*' && p.at(p.pos+1) == '/' {
					p.pos += 2
					closed = true
					break
				}
				p.pos++
			}
			if !closed {
				p.fail("text.unterminated-comment", start, "")
			}
			continue
		}
		return
	}
}

// isStop reports whether offset i is a legal terminator of a numeric token.
func (p *textParser) isStop(i int) bool {
	if i >= len(p.d) {
		return true
	}
	c := p.d[i]
	if tIsWS(c) {
		return true
	}
	switch c {
	case '{', '}', '[', ']', '(', ')', ',', '"', '\'':
		return true
	case '/':
		n := p.at(i + 1)
		return n == '/' || n == '*'
	}
	return false
}

func (p *textParser) enter(pos int) {
	p.depth++
	if p.depth > tMaxDepth {
		p.unsure("text.too-deep", pos, "nesting beyond reference parser limit")
	}
}
func (p *textParser) leave() { p.depth-- }

// parseValue parses annotations and one value starting at a non-whitespace byte.
// The returned token describes the final (value) token.
func (p *textParser) parseValue(inSexp bool) (*model.Value, tTok) {
	var annots []model.Sym
	for {
		if p.eof() {
			p.fail("text.dangling-annotation", p.pos, "end of input")
		}
		tokStart := p.pos
		tok := p.parseToken(inSexp)
		if p.pos <= tokStart {
			p.unsure("internal.no-progress", tokStart, "")
		}
		if tok.kind != tTokValue {
			save := p.pos
			p.skipWS(true)
			if p.hasPrefix("::") {
				switch tok.kind {
				case tTokKeyword:
					p.fail("text.keyword-annotation", tokStart, "")
				case tTokOp:
					p.fail("text.operator-annotation", tokStart, "")
				}
				annots = append(annots, *tok.v.Sym)
				p.pos += 2
				p.skipWS(true)
				if p.eof() {
					p.fail("text.dangling-annotation", p.pos, "end of input")
				}
				switch p.d[p.pos] {
				case ']', '}', ')', ',':
					p.fail("text.dangling-annotation", p.pos, "")
				}
				continue
			}
			p.pos = save
		}
		if tok.kind == tTokOp && len(annots) > 0 {
			p.unsure("text.annotated-operator", tokStart, "")
		}
		if len(annots) > 0 {
			tok.v.Annots = annots
		}
		return tok.v, tok
	}
}

// parseToken parses exactly one un-annotated value token (scalar or whole container).
func (p *textParser) parseToken(inSexp bool) tTok {
	c := p.d[p.pos]
	switch {
	case c == '"':
		p.pos++
		s := p.readQuoted(tQuoteShortString)
		return tTok{v: model.NewString(string(s))}
	case c == '\'':
		if p.hasPrefix("'''") {
			s := p.readLongString(false)
			return tTok{v: model.NewString(string(s))}
		}
		p.pos++
		s := p.readQuoted(tQuoteSymbol)
		return tTok{v: model.NewSymbol(model.T(string(s))), kind: tTokQuoted}
	case c == '{':
		if p.at(p.pos+1) == '{' {
			return tTok{v: p.parseLob()}
		}
		return tTok{v: p.parseStruct()}
	case c == '[':
		return tTok{v: p.parseList()}
	case c == '(':
		return tTok{v: p.parseSexp()}
	case tIsDigit(c):
		return tTok{v: p.parseNumber(inSexp)}
	case c == '-' && tIsDigit(p.at(p.pos+1)):
		if inSexp && p.pos > 0 {
			pc := p.d[p.pos-1]
			if tIsOp(pc) || tIsIdentPart(pc) {
				p.unsure("text.sexp-operator-number-ambiguity", p.pos, "'-' glued to previous token")
			}
		}
		return tTok{v: p.parseNumber(inSexp)}
	case (c == '-' || c == '+') && p.hasPrefix(string(c)+"inf"):
		if p.isStop(p.pos + 4) {
			p.pos += 4
			if c == '-' {
				return tTok{v: model.NewFloat(math.Inf(-1))}
			}
			return tTok{v: model.NewFloat(math.Inf(1))}
		}
		if inSexp {
			p.unsure("text.sexp-inf-ambiguity", p.pos, "")
		}
		p.fail("text.operator-outside-sexp", p.pos, "")
	case tIsIdentStart(c):
		return p.parseIdentLike(inSexp)
	case tIsOp(c):
		if !inSexp {
			p.fail("text.operator-outside-sexp", p.pos, string(c))
		}
		return p.parseOperator()
	}
	p.fail("text.unexpected-char", p.pos, fmt.Sprintf("byte 0x%02x cannot start a value", c))
	return tTok{}
}

func (p *textParser) parseOperator() tTok {
	start := p.pos
	for p.pos < len(p.d) && tIsOp(p.d[p.pos]) {
		if p.d[p.pos] == '/' && (p.at(p.pos+1) == '/' || p.at(p.pos+1) == '*') {
			break
		}
		p.pos++
	}
	if p.pos == start {
		p.fail("text.unexpected-char", start, "")
	}
	last := p.d[p.pos-1]
	if last == '-' || last == '+' {
		if tIsDigit(p.at(p.pos)) || p.hasPrefix("inf") {
			p.unsure("text.sexp-operator-number-ambiguity", start, "")
		}
	}
	return tTok{v: model.NewSymbol(model.T(string(p.d[start:p.pos]))), kind: tTokOp}
}

var tNullTypes = map[string]model.Kind{
	"null": model.Null, "bool": model.Bool, "int": model.Int, "float": model.Float, "decimal": model.Decimal,
	"timestamp": model.Timestamp, "symbol": model.Symbol, "string": model.String, "clob": model.Clob,
	"blob": model.Blob, "list": model.List, "sexp": model.Sexp, "struct": model.Struct,
}

// parseIdentLike parses identifiers, keywords, typed nulls and $n references.
func (p *textParser) parseIdentLike(inSexp bool) tTok {
	start := p.pos
	for p.pos < len(p.d) && tIsIdentPart(p.d[p.pos]) {
		p.pos++
	}
	word := string(p.d[start:p.pos])
	switch word {
	case "true":
		return tTok{v: model.NewBool(true), kind: tTokKeyword}
	case "false":
		return tTok{v: model.NewBool(false), kind: tTokKeyword}
	case "nan":
		return tTok{v: model.NewFloat(math.NaN()), kind: tTokKeyword}
	case "null":
		if p.at(p.pos) != '.' {
			return tTok{v: model.NewNull(model.Null), kind: tTokKeyword}
		}
		dot := p.pos
		q := p.pos + 1
		for q < len(p.d) && tIsIdentPart(p.d[q]) {
			q++
		}
		name := string(p.d[dot+1 : q])
		if k, ok := tNullTypes[name]; ok {
			p.pos = q
			return tTok{v: model.NewNull(k), kind: tTokKeyword}
		}
		if inSexp {
			// "(null.foo)" / "(null . x)": could be null followed by operator '.'; not certain.
			p.unsure("text.bad-null-type", dot, "inside sexp")
		}
		p.fail("text.bad-null-type", dot, name)
	}
	if len(word) >= 2 && word[0] == '$' {
		allDigits := true
		for i := 1; i < len(word); i++ {
			if !tIsDigit(word[i]) {
				allDigits = false
				break
			}
		}
		if allDigits {
			if len(word) > 2 && word[1] == '0' {
				p.unsure("text.sid-leading-zero", start, word)
			}
			if len(word) > 19 {
				p.fail("sym.id-out-of-range", start, word)
			}
			id, err := strconv.ParseInt(word[1:], 10, 64)
			if err != nil {
				p.fail("sym.id-out-of-range", start, word)
			}
			s, ok := p.ctx.Resolve(id)
			if !ok {
				p.fail("sym.id-out-of-range", start, word)
			}
			return tTok{v: model.NewSymbol(s), kind: tTokSID, sid: id}
		}
	}
	return tTok{v: model.NewSymbol(model.T(word)), kind: tTokIdent, raw: word}
}

// ---------------------------------------------------------------- containers

func (p *textParser) parseList() *model.Value {
	open := p.pos
	p.enter(open)
	defer p.leave()
	p.pos++
	v := model.NewSeq(model.List)
	const (
		stFirst = iota
		stAfterValue
		stAfterComma
	)
	st := stFirst
	for {
		p.skipWS(true)
		if p.eof() {
			p.fail("text.unterminated-container", open, "list")
		}
		c := p.d[p.pos]
		switch {
		case c == ']':
			if st == stAfterComma {
				p.unsure("text.trailing-comma", p.pos, "list")
			}
			p.pos++
			return v
		case c == '}' || c == ')':
			p.fail("text.unexpected-closer", p.pos, "in list")
		case c == ',':
			if st != stAfterValue {
				p.fail("text.misplaced-comma", p.pos, "list")
			}
			st = stAfterComma
			p.pos++
			continue
		}
		if st == stAfterValue {
			p.fail("text.missing-comma", p.pos, "list")
		}
		kid, _ := p.parseValue(false)
		v.Kids = append(v.Kids, kid)
		st = stAfterValue
	}
}

func (p *textParser) parseSexp() *model.Value {
	open := p.pos
	p.enter(open)
	defer p.leave()
	p.pos++
	v := model.NewSeq(model.Sexp)
	for {
		p.skipWS(true)
		if p.eof() {
			p.fail("text.unterminated-container", open, "sexp")
		}
		c := p.d[p.pos]
		switch c {
		case ')':
			p.pos++
			return v
		case ']', '}':
			p.fail("text.unexpected-closer", p.pos, "in sexp")
		case ',':
			p.fail("text.comma-in-sexp", p.pos, "")
		}
		kid, _ := p.parseValue(true)
		v.Kids = append(v.Kids, kid)
	}
}

func (p *textParser) parseStruct() *model.Value {
	open := p.pos
	p.enter(open)
	defer p.leave()
	p.pos++
	v := model.NewSeq(model.Struct)
	const (
		stFirst = iota
		stAfterValue
		stAfterComma
	)
	st := stFirst
	for {
		p.skipWS(true)
		if p.eof() {
			p.fail("text.unterminated-container", open, "struct")
		}
		c := p.d[p.pos]
		switch {
		case c == '}':
			if st == stAfterComma {
				p.unsure("text.trailing-comma", p.pos, "struct")
			}
			p.pos++
			return v
		case c == ']' || c == ')':
			p.fail("text.unexpected-closer", p.pos, "in struct")
		case c == ',':
			if st != stAfterValue {
				p.fail("text.misplaced-comma", p.pos, "struct")
			}
			st = stAfterComma
			p.pos++
			continue
		}
		if st == stAfterValue {
			p.fail("text.missing-comma", p.pos, "struct")
		}
		name := p.parseFieldName()
		p.skipWS(true)
		if p.eof() {
			p.fail("text.unterminated-container", open, "struct")
		}
		if p.d[p.pos] != ':' {
			p.fail("text.expected-colon", p.pos, "")
		}
		p.pos++
		p.skipWS(true)
		if p.eof() {
			p.fail("text.unterminated-container", open, "struct")
		}
		switch p.d[p.pos] {
		case '}', ']', ')', ',':
			p.fail("text.dangling-field-name", p.pos, "")
		}
		kid, _ := p.parseValue(false)
		kid.Field = &name
		v.Kids = append(v.Kids, kid)
		st = stAfterValue
	}
}

func (p *textParser) parseFieldName() model.Sym {
	c := p.d[p.pos]
	switch {
	case c == '"':
		p.pos++
		return model.T(string(p.readQuoted(tQuoteShortString)))
	case c == '\'':
		if p.hasPrefix("'''") {
			return model.T(string(p.readLongString(false)))
		}
		p.pos++
		return model.T(string(p.readQuoted(tQuoteSymbol)))
	case tIsIdentStart(c):
		start := p.pos
		tok := p.parseIdentLike(false)
		if tok.kind == tTokKeyword {
			p.fail("text.keyword-field-name", start, "")
		}
		return *tok.v.Sym
	}
	p.fail("text.bad-field-name", p.pos, fmt.Sprintf("byte 0x%02x", c))
	return model.Sym{}
}

// ---------------------------------------------------------------- numbers

// scanDigits reads a run of digits accepted by ok, with single underscores allowed only between two digits.
// It returns the digits without underscores. The run may be empty.
func (p *textParser) scanDigits(ok func(byte) bool) string {
	var out []byte
	for p.pos < len(p.d) {
		c := p.d[p.pos]
		if ok(c) {
			out = append(out, c)
			p.pos++
			continue
		}
		if c == '_' {
			if len(out) == 0 || p.d[p.pos-1] == '_' || !ok(p.at(p.pos+1)) {
				p.fail("text.bad-underscore", p.pos, "")
			}
			p.pos++
			continue
		}
		break
	}
	return string(out)
}

func tIsBin(c byte) bool { return c == '0' || c == '1' }

func (p *textParser) endNumber(start int) {
	if !p.isStop(p.pos) {
		p.fail("text.number-not-terminated", p.pos, fmt.Sprintf("token starting at %d", start))
	}
}

func (p *textParser) parseNumber(inSexp bool) *model.Value {
	start := p.pos
	neg := false
	if p.d[p.pos] == '-' {
		neg = true
		p.pos++
	}
	// timestamp: exactly four digits followed by '-' or 'T'
	if p.pos+4 < len(p.d) && tIsDigit(p.d[p.pos]) && tIsDigit(p.d[p.pos+1]) && tIsDigit(p.d[p.pos+2]) && tIsDigit(p.d[p.pos+3]) &&
		(p.d[p.pos+4] == '-' || p.d[p.pos+4] == 'T') {
		if neg {
			p.fail("text.bad-number", start, "negative timestamp")
		}
		return p.parseTimestamp()
	}
	// radix prefixes
	if p.at(p.pos) == '0' && (p.at(p.pos+1) == 'x' || p.at(p.pos+1) == 'X' || p.at(p.pos+1) == 'b' || p.at(p.pos+1) == 'B') {
		radix := 16
		okf := tIsHex
		if p.at(p.pos+1) == 'b' || p.at(p.pos+1) == 'B' {
			radix = 2
			okf = tIsBin
		}
		p.pos += 2
		if p.at(p.pos) == '_' {
			p.fail("text.bad-underscore", p.pos, "after radix prefix")
		}
		digs := p.scanDigits(okf)
		if digs == "" {
			p.fail("text.bad-number", start, "radix prefix without digits")
		}
		p.endNumber(start)
		n, ok := new(big.Int).SetString(digs, radix)
		if !ok {
			p.unsure("internal.bigint", start, digs)
		}
		if neg {
			n.Neg(n)
		}
		return model.NewBig(n)
	}
	intPart := p.scanDigits(tIsDigit)
	if intPart == "" {
		p.fail("text.bad-number", start, "")
	}
	if len(intPart) > 1 && intPart[0] == '0' {
		p.fail("text.leading-zero", start, "")
	}
	hasDot := false
	frac := ""
	if p.at(p.pos) == '.' {
		hasDot = true
		p.pos++
		frac = p.scanDigits(tIsDigit)
	}
	expCh := byte(0)
	expStr := ""
	if c := p.at(p.pos); c == 'd' || c == 'D' || c == 'e' || c == 'E' {
		expCh = c
		p.pos++
		if s := p.at(p.pos); s == '+' || s == '-' {
			if s == '-' {
				expStr = "-"
			}
			p.pos++
		}
		ds := p.pos
		for p.pos < len(p.d) && tIsDigit(p.d[p.pos]) {
			p.pos++
		}
		if p.pos == ds {
			p.fail("text.bad-number", ds, "exponent without digits")
		}
		if p.at(p.pos) == '_' {
			p.unsure("text.underscore-in-exponent", p.pos, "")
		}
		expStr += string(p.d[ds:p.pos])
	}
	p.endNumber(start)
	if !hasDot && expCh == 0 {
		n, ok := new(big.Int).SetString(intPart, 10)
		if !ok {
			p.unsure("internal.bigint", start, intPart)
		}
		if neg {
			n.Neg(n)
		}
		return model.NewBig(n)
	}
	if expCh == 'e' || expCh == 'E' {
		s := intPart
		if neg {
			s = "-" + s
		}
		if frac != "" {
			s += "." + frac
		}
		s += "e" + expStr
		f, err := strconv.ParseFloat(s, 64)
		if err != nil {
			if ne, ok := err.(*strconv.NumError); !ok || ne.Err != strconv.ErrRange {
				p.unsure("internal.parsefloat", start, s)
			}
		}
		return model.NewFloat(f)
	}
	// decimal
	coef, ok := new(big.Int).SetString(intPart+frac, 10)
	if !ok {
		p.unsure("internal.bigint", start, intPart+frac)
	}
	exp := big.NewInt(-int64(len(frac)))
	if expStr != "" {
		e, ok := new(big.Int).SetString(expStr, 10)
		if !ok {
			p.unsure("internal.bigint", start, expStr)
		}
		exp.Add(exp, e)
	}
	if !exp.IsInt64() || exp.Int64() > math.MaxInt32 || exp.Int64() < math.MinInt32 {
		p.unsure("text.decimal-exponent-range", start, exp.String())
	}
	negZero := false
	if neg {
		if coef.Sign() == 0 {
			negZero = true
		} else {
			coef.Neg(coef)
		}
	}
	return model.NewDec(coef, int32(exp.Int64()), negZero)
}

// ---------------------------------------------------------------- timestamps

// tsDigits reads exactly n digits or fails with a format error.
func (p *textParser) tsDigits(n int) int {
	v := 0
	for i := 0; i < n; i++ {
		c := p.at(p.pos)
		if p.pos >= len(p.d) || !tIsDigit(c) {
			p.fail("text.ts-bad-format", p.pos, "expected digit")
		}
		v = v*10 + int(c-'0')
		p.pos++
	}
	return v
}

func (p *textParser) tsField(ok bool, pos int, what string) {
	if !ok {
		p.fail("text.ts-bad-field", pos, what)
	}
}

func (p *textParser) parseTimestamp() *model.Value {
	start := p.pos
	var t model.TS
	t.Year = p.tsDigits(4)
	p.tsField(t.Year >= 1, start, "year")
	finish := func() *model.Value {
		p.endNumber(start)
		return model.NewTS(t)
	}
	if p.at(p.pos) == 'T' {
		p.pos++
		t.Prec = model.Year
		t.Unknown = true
		return finish()
	}
	// '-' guaranteed by the caller
	p.pos++
	mpos := p.pos
	t.Month = p.tsDigits(2)
	p.tsField(t.Month >= 1 && t.Month <= 12, mpos, "month")
	if p.at(p.pos) == 'T' {
		p.pos++
		t.Prec = model.Month
		t.Unknown = true
		return finish()
	}
	if p.at(p.pos) != '-' {
		p.fail("text.ts-bad-format", p.pos, "expected '-' or 'T' after month")
	}
	p.pos++
	dpos := p.pos
	t.Day = p.tsDigits(2)
	p.tsField(t.Day >= 1 && t.Day <= model.DaysIn(t.Year, t.Month), dpos, "day")
	if p.at(p.pos) != 'T' {
		t.Prec = model.Day
		t.Unknown = true
		return finish()
	}
	p.pos++
	if !tIsDigit(p.at(p.pos)) {
		t.Prec = model.Day
		t.Unknown = true
		return finish()
	}
	hpos := p.pos
	t.Hour = p.tsDigits(2)
	p.tsField(t.Hour <= 23, hpos, "hour")
	if p.at(p.pos) != ':' {
		p.fail("text.ts-bad-format", p.pos, "expected ':' after hour")
	}
	p.pos++
	mipos := p.pos
	t.Minute = p.tsDigits(2)
	p.tsField(t.Minute <= 59, mipos, "minute")
	t.Prec = model.Minute
	if p.at(p.pos) == ':' {
		p.pos++
		spos := p.pos
		t.Second = p.tsDigits(2)
		p.tsField(t.Second <= 59, spos, "second")
		t.Prec = model.Second
		if p.at(p.pos) == '.' {
			p.pos++
			fs := p.pos
			for p.pos < len(p.d) && tIsDigit(p.d[p.pos]) {
				p.pos++
			}
			if p.pos == fs {
				p.fail("text.ts-bad-format", p.pos, "fraction without digits")
			}
			t.Frac = string(p.d[fs:p.pos])
			t.FracDigits = len(t.Frac)
			t.Prec = model.Fraction
		}
	}
	// offset
	switch c := p.at(p.pos); {
	case p.pos < len(p.d) && c == 'Z':
		p.pos++
	case p.pos < len(p.d) && (c == '+' || c == '-'):
		p.pos++
		ohpos := p.pos
		oh := p.tsDigits(2)
		if p.at(p.pos) != ':' {
			p.fail("text.ts-bad-format", p.pos, "expected ':' in offset")
		}
		p.pos++
		ompos := p.pos
		om := p.tsDigits(2)
		p.tsField(oh <= 23, ohpos, "offset hour")
		p.tsField(om <= 59, ompos, "offset minute")
		off := oh*60 + om
		if c == '-' {
			if off == 0 {
				t.Unknown = true
			}
			off = -off
		}
		t.Offset = off
	default:
		if p.isStop(p.pos) {
			p.fail("text.ts-missing-offset", p.pos, "")
		}
		p.fail("text.ts-bad-format", p.pos, "expected offset")
	}
	p.endNumber(start)
	if !t.Unknown && t.Offset != 0 {
		u := t.UTC()
		if u.Year < 1 || u.Year > 9999 {
			p.unsure("text.ts-utc-out-of-range", start, "")
		}
	}
	return model.NewTS(t)
}

// ---------------------------------------------------------------- strings, symbols, clob bodies

const (
	tQuoteShortString = iota
	tQuoteSymbol
	tQuoteShortClob
	tQuoteLongString
	tQuoteLongClob
)

// readQuoted reads the body of a quoted token; p.pos is just after the opening quote(s). It consumes the
// closing quote(s) and returns the decoded bytes.
func (p *textParser) readQuoted(mode int) []byte {
	open := p.pos
	long := mode == tQuoteLongString || mode == tQuoteLongClob
	clob := mode == tQuoteShortClob || mode == tQuoteLongClob
	term := byte('"')
	if mode == tQuoteSymbol || long {
		term = '\''
	}
	unterminated := func() {
		switch {
		case clob:
			p.fail("text.unterminated-lob", open, "")
		case mode == tQuoteSymbol:
			p.fail("text.unterminated-symbol", open, "")
		default:
			p.fail("text.unterminated-string", open, "")
		}
	}
	out := []byte{}
	for {
		if p.eof() {
			unterminated()
		}
		c := p.d[p.pos]
		if c == term {
			if !long {
				p.pos++
				return out
			}
			if p.hasPrefix("'''") {
				p.pos += 3
				return out
			}
			out = append(out, c)
			p.pos++
			continue
		}
		switch {
		case c == '\\':
			out = p.readEscape(out, clob, unterminated)
		case c == '\n' || c == '\r':
			if !long {
				if mode == tQuoteSymbol {
					p.fail("text.newline-in-symbol", p.pos, "")
				}
				p.fail("text.newline-in-string", p.pos, "")
			}
			if c == '\r' && p.at(p.pos+1) == '\n' {
				p.pos++
			}
			p.pos++
			out = append(out, '\n')
		case c < 0x20 && c != '\t' && c != 0x0B && c != 0x0C:
			p.unsure("text.control-char-in-string", p.pos, fmt.Sprintf("0x%02x", c))
		case c >= 0x80 && clob:
			p.fail("text.clob-non-ascii", p.pos, "")
		default:
			out = append(out, c)
			p.pos++
		}
	}
}

func (p *textParser) readHex(n int, escStart int) int {
	v := 0
	for i := 0; i < n; i++ {
		if p.pos >= len(p.d) || !tIsHex(p.d[p.pos]) {
			p.fail("text.bad-escape", escStart, "expected hex digit")
		}
		v = v<<4 | tHexVal(p.d[p.pos])
		p.pos++
	}
	return v
}

func tAppendRune(out []byte, r int) []byte {
	var buf [4]byte
	n := utf8.EncodeRune(buf[:], rune(r))
	return append(out, buf[:n]...)
}

// readEscape decodes one escape sequence; p.pos is at the backslash.
func (p *textParser) readEscape(out []byte, clob bool, unterminated func()) []byte {
	esc := p.pos
	p.pos++
	if p.eof() {
		unterminated()
	}
	c := p.d[p.pos]
	p.pos++
	switch c {
	case 'a':
		return append(out, 0x07)
	case 'b':
		return append(out, 0x08)
	case 't':
		return append(out, 0x09)
	case 'n':
		return append(out, 0x0A)
	case 'f':
		return append(out, 0x0C)
	case 'r':
		return append(out, 0x0D)
	case 'v':
		return append(out, 0x0B)
	case '?':
		return append(out, '?')
	case '0':
		return append(out, 0x00)
	case '\'':
		return append(out, '\'')
	case '"':
		return append(out, '"')
	case '/':
		return append(out, '/')
	case '\\':
		return append(out, '\\')
	case '\n':
		return out
	case '\r':
		if p.at(p.pos) == '\n' {
			p.pos++
		}
		return out
	case 'x':
		v := p.readHex(2, esc)
		if clob {
			return append(out, byte(v))
		}
		return tAppendRune(out, v)
	case 'u':
		if clob {
			p.fail("text.clob-unicode-escape", esc, "")
		}
		v := p.readHex(4, esc)
		if v >= 0xD800 && v <= 0xDBFF {
			if p.at(p.pos) == '\\' && p.at(p.pos+1) == 'u' {
				save := p.pos
				p.pos += 2
				lo := p.readHex(4, save)
				if lo >= 0xDC00 && lo <= 0xDFFF {
					return tAppendRune(out, 0x10000+((v-0xD800)<<10)+(lo-0xDC00))
				}
			}
			p.unsure("text.lone-surrogate", esc, "")
		}
		if v >= 0xDC00 && v <= 0xDFFF {
			p.unsure("text.lone-surrogate", esc, "")
		}
		return tAppendRune(out, v)
	case 'U':
		if clob {
			p.fail("text.clob-unicode-escape", esc, "")
		}
		v := p.readHex(8, esc)
		if v > 0x10FFFF {
			p.fail("text.bad-escape", esc, "beyond U+10FFFF")
		}
		if v >= 0xD800 && v <= 0xDFFF {
			p.unsure("text.lone-surrogate", esc, "")
		}
		return tAppendRune(out, v)
	}
	p.fail("text.bad-escape", esc, fmt.Sprintf("\\ followed by 0x%02x", c))
	return out
}

// readLongString reads one or more adjacent triple-quoted segments; p.pos is at the first opening quote.
// Between segments whitespace (and, outside lobs, comments) may appear.
func (p *textParser) readLongString(clob bool) []byte {
	mode := tQuoteLongString
	if clob {
		mode = tQuoteLongClob
	}
	var out []byte
	for {
		p.pos += 3
		out = append(out, p.readQuoted(mode)...)
		save := p.pos
		p.skipWS(!clob)
		if p.hasPrefix("'''") {
			continue
		}
		p.pos = save
		return out
	}
}

// ---------------------------------------------------------------- lobs

func (p *textParser) closeLob(open int) {
	p.skipWS(false)
	if p.eof() {
		p.fail("text.unterminated-lob", open, "")
	}
	if p.d[p.pos] == '}' && p.at(p.pos+1) == '}' {
		p.pos += 2
		return
	}
	if p.d[p.pos] == '}' && p.pos+1 >= len(p.d) {
		p.fail("text.unterminated-lob", open, "")
	}
	p.fail("text.bad-lob-close", p.pos, "")
}

func tB64Val(c byte) int {
	switch {
	case c >= 'A' && c <= 'Z':
		return int(c - 'A')
	case c >= 'a' && c <= 'z':
		return int(c-'a') + 26
	case c >= '0' && c <= '9':
		return int(c-'0') + 52
	case c == '+':
		return 62
	case c == '/':
		return 63
	}
	return -1
}

func (p *textParser) parseLob() *model.Value {
	open := p.pos
	p.pos += 2
	p.skipWS(false)
	if p.eof() {
		p.fail("text.unterminated-lob", open, "")
	}
	c := p.d[p.pos]
	if c == '"' {
		p.pos++
		b := p.readQuoted(tQuoteShortClob)
		p.closeLob(open)
		return model.NewLob(model.Clob, b)
	}
	if p.hasPrefix("'''") {
		b := p.readLongString(true)
		p.closeLob(open)
		return model.NewLob(model.Clob, b)
	}
	// blob
	var chars []byte
	pad := 0
	for {
		if p.eof() {
			p.fail("text.unterminated-lob", open, "")
		}
		c = p.d[p.pos]
		if tIsWS(c) {
			p.pos++
			continue
		}
		if c == '}' {
			break
		}
		if c == '=' {
			pad++
			if pad > 2 {
				p.fail("text.bad-base64", p.pos, "too much padding")
			}
			chars = append(chars, c)
			p.pos++
			continue
		}
		if tB64Val(c) < 0 {
			p.fail("text.bad-base64", p.pos, fmt.Sprintf("byte 0x%02x", c))
		}
		if pad > 0 {
			p.fail("text.bad-base64", p.pos, "data after padding")
		}
		chars = append(chars, c)
		p.pos++
	}
	closePos := p.pos
	p.closeLob(open)
	if len(chars)%4 != 0 {
		p.fail("text.bad-base64", closePos, "length not a multiple of 4")
	}
	if pad > 0 {
		last := tB64Val(chars[len(chars)-pad-1])
		if (pad == 2 && last&0x0F != 0) || (pad == 1 && last&0x03 != 0) {
			p.unsure("text.base64-noncanonical", closePos, "non-zero trailing bits")
		}
	}
	b, err := base64.StdEncoding.DecodeString(string(chars))
	if err != nil {
		p.unsure("internal.base64", closePos, err.Error())
	}
	return model.NewLob(model.Blob, b)
}

// Package gen holds the seeded generators of model values and documents.
package gen

import (
	"math"
	"math/big"
	"strings"

	"ionsim/model"
	"ionsim/prng"
)

// Opts steer a document generator (swarm style: each run enables a subset).
type Opts struct {
	MaxDepth   int
	MaxKids    int
	Kinds      []model.Kind // enabled kinds (nil = all)
	BigLobs    bool         // allow lobs/strings of a few hundred bytes
	NoSID      bool         // never generate $n symbols (text only)
	MaxFracDig int          // timestamps: max fractional digits (default 9)
	ASCIIOnly  bool
	NoAnnots   bool
	SymPool    []string // optional pool of symbol texts
}

func DefaultOpts() Opts {
	return Opts{MaxDepth: 4, MaxKids: 5, MaxFracDig: 9}
}

// Swarm draws a random configuration.
func Swarm(r *prng.Rand) Opts {
	o := DefaultOpts()
	o.MaxDepth = r.Range(1, 6)
	o.MaxKids = r.Range(1, 6)
	if r.Chance(1, 2) {
		// random subset of kinds, always at least 3
		all := r.Perm(13)
		n := r.Range(3, 13)
		for _, k := range all[:n] {
			o.Kinds = append(o.Kinds, model.Kind(k))
		}
	}
	o.BigLobs = r.Chance(1, 6)
	o.NoSID = r.Chance(3, 4)
	o.ASCIIOnly = r.Chance(1, 4)
	o.NoAnnots = r.Chance(1, 5)
	return o
}

func (o Opts) pickKind(r *prng.Rand, depth int) model.Kind {
	for tries := 0; tries < 20; tries++ {
		var k model.Kind
		if len(o.Kinds) > 0 {
			k = o.Kinds[r.Intn(len(o.Kinds))]
		} else {
			k = model.Kind(r.Intn(13))
		}
		if k.IsContainer() && depth >= o.MaxDepth {
			continue
		}
		return k
	}
	return model.Int
}

var symTexts = []string{"a", "b", "name", "foo", "bar_1", "$ion", "symbols", "imports", "max_id", "version", "null", "true", "false", "nan",
	"$5", "$0", "$ion_1_0", "$ion_symbol_table", "", "+", "a b", "it's", "x\ny", "é", "日本", "😀", "//", "/*", "::", "{{", "}}", "'''", "_", "$", "A9_$", "nul", "\\", "\""}

// SymText returns a symbol text.
func SymText(r *prng.Rand, o Opts) string {
	if len(o.SymPool) > 0 && r.Chance(3, 4) {
		return o.SymPool[r.Intn(len(o.SymPool))]
	}
	if r.Chance(1, 5) {
		return Str(r, o, 6)
	}
	for {
		s := symTexts[r.Intn(len(symTexts))]
		if o.ASCIIOnly && !isASCII(s) {
			continue
		}
		return s
	}
}

func isASCII(s string) bool {
	for i := 0; i < len(s); i++ {
		if s[i] >= 0x80 {
			return false
		}
	}
	return true
}

// Sym returns a symbol token.
func Sym(r *prng.Rand, o Opts) model.Sym {
	if !o.NoSID && r.Chance(1, 8) {
		// $0 or a system symbol ID: always defined
		return model.ID(int64(r.Intn(1))) // $0 only: IDs 1..9 have text and would be reported by text
	}
	return model.T(SymText(r, o))
}

var runePool = []rune{'a', 'b', 'z', 'A', '0', '9', ' ', '_', '$', '\'', '"', '\\', '/', '*', '{', '}', '[', ']', '(', ')', ',', ':', '\n', '\r', '\t', 0, 1, 0x1f, 0x7f, 0x80, 0xe9, 0x7ff, 0x800, 0x65e5, 0xfffd, 0xffff, 0x10000, 0x1f600, 0x10ffff, '?', '\a', '\b', '\f', '\v', '+', '-', '.', 'e', 'd', 'T', 'Z'}

// Str returns a string of up to max runes drawn from a pool that stresses escaping.
func Str(r *prng.Rand, o Opts, max int) string {
	n := r.Intn(max + 1)
	var sb strings.Builder
	for i := 0; i < n; i++ {
		c := runePool[r.Intn(len(runePool))]
		if o.ASCIIOnly && c >= 0x80 {
			c = 'q'
		}
		sb.WriteRune(c)
	}
	return sb.String()
}

var lobLens = []int{0, 0, 1, 2, 3, 4, 5, 12, 13, 14, 15, 16, 30}
var bigLens = []int{127, 128, 129, 200, 300}

// Bytes returns lob content.
func Bytes(r *prng.Rand, o Opts) []byte {
	n := lobLens[r.Intn(len(lobLens))]
	if o.BigLobs && r.Chance(1, 4) {
		n = bigLens[r.Intn(len(bigLens))]
	}
	b := make([]byte, n)
	mode := r.Intn(4)
	for i := range b {
		switch mode {
		case 0:
			b[i] = byte(r.Intn(256))
		case 1:
			b[i] = byte(32 + r.Intn(95))
		case 2:
			b[i] = lobChars[r.Intn(len(lobChars))]
		default:
			b[i] = byte(r.Intn(256))
			if r.Chance(1, 2) {
				b[i] = '}'
			}
		}
	}
	return b
}

// BigInt returns a boundary-biased integer.
func BigInt(r *prng.Rand) *big.Int {
	var v *big.Int
	switch r.Intn(6) {
	case 0:
		v = big.NewInt(int64(r.Intn(21) - 10))
	case 1: // around 2^(7k) and 2^(8k)
		k := r.Range(1, 10)
		sh := uint(7 * k)
		if r.Bool() {
			sh = uint(8 * k)
		}
		v = new(big.Int).Lsh(big.NewInt(1), sh)
		v.Add(v, big.NewInt(int64(r.Intn(5)-2)))
	case 2:
		v = big.NewInt(int64(r.Uint64()))
	case 3:
		v = new(big.Int).SetUint64(r.Uint64())
	case 4:
		b := make([]byte, r.Range(1, 20))
		for i := range b {
			b[i] = byte(r.Intn(256))
		}
		v = new(big.Int).SetBytes(b)
	default:
		v = big.NewInt(int64(r.Intn(100000)))
	}
	if r.Chance(2, 5) {
		v.Neg(v)
	}
	return v
}

var floatPool = []uint64{
	0, 0x8000000000000000, 0x3ff0000000000000, 0xbff0000000000000, 0x7ff0000000000000, 0xfff0000000000000, 0x7ff8000000000000,
	0x0000000000000001, 0x000fffffffffffff, 0x0010000000000000, 0x7fefffffffffffff, 0x3fb999999999999a, 0x400921fb54442d18,
	0x47efffffe0000000, 0x36a0000000000000, 0x3810000000000000, 0x4059000000000000, 0x3fe0000000000000,
	// around the edges of the float32 range: 2^128, 2*MaxFloat32, -1.25*2^128, MaxFloat32 plus one float64 ulp, 2^127,
	// half the smallest float32 subnormal, the largest float32 subnormal, the smallest float32 normal less one ulp
	0x47f0000000000000, 0x47ffffffe0000000, 0xc7f4000000000000, 0x47efffffe0000001, 0x47e0000000000000,
	0x3690000000000000, 0x380fffffc0000000, 0x380fffffffffffff,
}

// Float returns float bits, class-biased.
func Float(r *prng.Rand) float64 {
	if r.Chance(2, 3) {
		return math.Float64frombits(floatPool[r.Intn(len(floatPool))])
	}
	if r.Bool() {
		return float64(math.Float32frombits(uint32(r.Uint64())))
	}
	f := math.Float64frombits(r.Uint64())
	return f
}

// Dec returns a decimal.
func Dec(r *prng.Rand) *model.Dec {
	d := &model.Dec{}
	switch r.Intn(5) {
	case 0:
		d.Coef = big.NewInt(0)
		d.NegZero = r.Bool()
	case 1:
		d.Coef = big.NewInt(int64(r.Intn(2001) - 1000))
	default:
		d.Coef = BigInt(r)
	}
	switch r.Intn(6) {
	case 0:
		d.Exp = 0
	case 1:
		d.Exp = int32(r.Intn(11) - 5)
	case 2:
		d.Exp = int32(r.Intn(201) - 100)
	case 3:
		d.Exp = -int32(r.Intn(30))
	case 4:
		d.Exp = int32(r.Intn(2000001) - 1000000)
	default:
		d.Exp = -int32(len(d.Coef.String())) + int32(r.Intn(5)-2)
	}
	if d.Coef.Sign() != 0 {
		d.NegZero = false
	}
	return d
}

// TS returns a timestamp.
func TS(r *prng.Rand, o Opts) *model.TS {
	t := &model.TS{}
	t.Prec = model.Precision(r.Intn(6))
	switch r.Intn(4) {
	case 0:
		t.Year = []int{1, 2, 1969, 1970, 2000, 2020, 9998, 9999}[r.Intn(8)]
	default:
		t.Year = r.Range(1, 9999)
	}
	t.Month, t.Day = 1, 1
	if t.Prec >= model.Month {
		t.Month = r.Range(1, 12)
	}
	if t.Prec >= model.Day {
		dim := model.DaysIn(t.Year, t.Month)
		if r.Chance(1, 3) {
			t.Day = dim
		} else {
			t.Day = r.Range(1, dim)
		}
	}
	if t.Prec < model.Minute {
		t.Unknown = true
		return t
	}
	t.Hour = r.Range(0, 23)
	t.Minute = r.Range(0, 59)
	if t.Prec >= model.Second {
		t.Second = r.Range(0, 59)
	}
	if t.Prec >= model.Fraction {
		max := o.MaxFracDig
		if max <= 0 {
			max = 9
		}
		t.FracDigits = r.Range(1, max)
		var sb strings.Builder
		mode := r.Intn(3)
		for i := 0; i < t.FracDigits; i++ {
			switch mode {
			case 0:
				sb.WriteByte('0')
			case 1:
				sb.WriteByte(byte('0' + r.Intn(10)))
			default:
				if i == 0 {
					sb.WriteByte(byte('1' + r.Intn(9)))
				} else {
					sb.WriteByte('0')
				}
			}
		}
		t.Frac = sb.String()
	}
	switch r.Intn(4) {
	case 0:
		t.Unknown = true
	case 1:
		t.Offset = 0
	default:
		t.Offset = r.Range(-1439, 1439)
		if r.Bool() {
			t.Offset = []int{60, -60, 330, -480, 1439, -1439, 1, -1}[r.Intn(8)]
		}
	}
	// keep the UTC fields within year 1..9999 (avoided corner, DESIGN appendix A)
	if !t.Unknown {
		u := t.UTC()
		if u.Year < 1 || u.Year > 9999 {
			t.Offset = 0
		}
	}
	return t
}

// Value generates one value at the given depth.
func Value(r *prng.Rand, o Opts, depth int) *model.Value {
	k := o.pickKind(r, depth)
	v := &model.Value{Kind: k}
	if !o.NoAnnots && r.Chance(1, 5) {
		n := r.Range(1, 3)
		for i := 0; i < n; i++ {
			v.Annots = append(v.Annots, Sym(r, o))
		}
	}
	if k == model.Null {
		v.IsNull = true
		return v
	}
	if r.Chance(1, 10) {
		v.IsNull = true
		return v
	}
	switch k {
	case model.Bool:
		v.Bool = r.Bool()
	case model.Int:
		v.Int = BigInt(r)
	case model.Float:
		v.Bits = math.Float64bits(Float(r))
	case model.Decimal:
		v.Dec = Dec(r)
	case model.Timestamp:
		v.TS = TS(r, o)
	case model.Symbol:
		s := Sym(r, o)
		v.Sym = &s
	case model.String:
		max := 8
		if o.BigLobs && r.Chance(1, 4) {
			max = 300
		}
		v.Str = Str(r, o, max)
	case model.Clob, model.Blob:
		v.Bytes = Bytes(r, o)
	case model.List, model.Sexp, model.Struct:
		n := r.Intn(o.MaxKids + 1)
		for i := 0; i < n; i++ {
			c := Value(r, o, depth+1)
			if k == model.Struct {
				f := Sym(r, o)
				c.Field = &f
			}
			v.Kids = append(v.Kids, c)
		}
	}
	return v
}

// Doc generates a document: a sequence of top-level values.
func Doc(r *prng.Rand, o Opts, maxTop int) []*model.Value {
	n := r.Range(0, maxTop)
	if r.Chance(9, 10) && n == 0 {
		n = 1
	}
	var out []*model.Value
	for i := 0; i < n; i++ {
		out = append(out, Value(r, o, 0))
	}
	return out
}

// LooksLikeIVM reports whether s has the shape $ion_<digits>_<digits>.
func LooksLikeIVM(s string) bool { return looksLikeIVM(s) }

func looksLikeIVM(s string) bool {
	// $ion_<digits>_<digits>
	if !strings.HasPrefix(s, "$ion_") {
		return false
	}
	rest := s[5:]
	i := 0
	for i < len(rest) && rest[i] >= '0' && rest[i] <= '9' {
		i++
	}
	if i == 0 || i >= len(rest) || rest[i] != '_' {
		return false
	}
	j := i + 1
	for j < len(rest) && rest[j] >= '0' && rest[j] <= '9' {
		j++
	}
	return j == len(rest) && j > i+1
}

// Sanitize removes the corners DESIGN.md appendix A lists as avoided in oracle-checked documents:
// a top-level unannotated symbol that looks like a version marker, and a top-level struct whose first
// annotation is $ion_symbol_table.
func Sanitize(doc []*model.Value) []*model.Value {
	for _, v := range doc {
		if v.Kind == model.Symbol && !v.IsNull && len(v.Annots) == 0 && v.Sym != nil && v.Sym.HasText && looksLikeIVM(v.Sym.Text) {
			s := model.T("ion_1_0")
			v.Sym = &s
		}
		if v.Kind == model.Struct && len(v.Annots) > 0 && v.Annots[0].HasText && v.Annots[0].Text == "$ion_symbol_table" {
			v.Annots[0] = model.T("ion_symbol_table")
		}
	}
	return doc
}

const lobChars = "}{\"'\\/* \n\r}}"

package drive

import (
	"fmt"
	"math/big"
	"runtime/metrics"
	"time"

	"github.com/amzn/ion-go/ion"

	"ionsim/model"
	"ionsim/sim"
)

// HostileCase is an explicit case of the hostile scenario (C06).
type HostileCase struct {
	Data    []byte         `json:"data"`
	Plan    sim.ReadPlan   `json:"plan"`
	Kind    string         `json:"kind"` // calls | decode | unmarshal | traverse
	Calls   []int          `json:"calls,omitempty"`
	Target  int            `json:"target,omitempty"`
	Catalog *model.Catalog `json:"catalog,omitempty"`
}

// HOutcome is what the watchdogs saw.
type HOutcome struct {
	Panic      string
	Frame      string
	PanicCall  string
	Spin       bool
	NextTrue   int
	Decoded    int
	Overrun    bool // more values than bytes
	AllocBytes uint64
	Reads      int
	Err        string
}

// ReaderOps is the call alphabet of "calls" programs.
var ReaderOps = []string{"Next", "Err", "Type", "IsNull", "Annotations", "StepIn", "StepOut", "BoolValue", "IntSize", "IntValue",
	"Int64Value", "BigIntValue", "FloatValue", "DecimalValue", "TimestampValue", "StringValue", "ByteValue", "IsInStruct", "FieldName",
	"SymbolValue", "SymbolTable"}

type annotated struct {
	Value interface{}
	Annot []string `ion:",annotations"`
}

type annotatedInt struct {
	Value int
	Annot []string `ion:",annotations"`
}

type tagged struct {
	A int                    `ion:"a"`
	B string                 `ion:"b,omitempty"`
	C []byte                 `ion:"c"`
	D *tagged                `ion:"d"`
	E map[string]interface{} `ion:"e"`
	F []interface{}          `ion:"f,sexp"`
	G ion.Timestamp          `ion:"name"`
	H *ion.Decimal           `ion:"symbols"`
	I interface{}            `ion:"imports"`
	J float32                `ion:"max_id"`
	K uint8                  `ion:"version"`
	L string                 `ion:"x,symbol"`
	M bool
}

type embedded struct {
	tagged
	N int64
}

type keyName string
type octet byte
type octets []byte
type smallInt int8

type hidden struct {
	B int    `ion:"b"`
	S string `ion:"symbols"`
}

// embedsHidden embeds a nil pointer to an unexported struct type whose fields are promoted.
type embedsHidden struct {
	*hidden
	A int `ion:"a"`
}

type hiddenAnn struct {
	Ann []string `ion:",annotations"`
}

// annotatedViaEmbedded is the two-field annotation wrapper with the annotations field reached through an embedded pointer.
type annotatedViaEmbedded struct {
	*hiddenAnn
	Value int
}

type holder struct {
	P  **tagged            `ion:"a"`
	M  map[keyName]*tagged `ion:"e"`
	L  []*embedsHidden     `ion:"f"`
	Ar [2]embedsHidden     `ion:"imports"`
	I  interface{}         `ion:"name"`
	O  octets              `ion:"c"`
	N  smallInt            `ion:"max_id"`
	F  func()              `ion:"version"`
	C  chan int            `ion:"symbols"`
}

// TargetCount is the size of the target zoo.
var TargetCount = len(Targets())

// Targets builds a fresh zoo of Unmarshal targets.
func Targets() []interface{} {
	return append(moreTargets(), baseTargets()...)
}

// prefilled returns targets that already hold something: slices with a little spare capacity, maps with an entry,
// pointers that are set — what a caller reusing a value between Unmarshal calls passes in.
func prefilled() []interface{} {
	s1 := make([]int, 0, 1)
	s2 := make([]string, 1, 2)
	s3 := make([]interface{}, 0, 3)
	s4 := make([][]byte, 0, 1)
	m1 := map[string]int{"a": 1}
	m2 := map[string]interface{}{"x": []interface{}{1}}
	n := 7
	pn := &n
	tg := tagged{A: 1, C: make([]byte, 0, 1), F: make([]interface{}, 0, 1), D: &tagged{}, E: map[string]interface{}{"k": 1}}
	h := holder{L: make([]*embedsHidden, 0, 1), O: make(octets, 0, 1)}
	arr := [3]int{9, 9, 9}
	var iface interface{} = []interface{}{"old"}
	return []interface{}{&s1, &s2, &s3, &s4, &m1, &m2, &pn, &tg, &h, &arr, &iface}
}

func moreTargets() []interface{} {
	return append(prefilled(), []interface{}{
		new(map[keyName]int), new(map[keyName]interface{}), new(map[int]string), new(map[smallInt]int), new(map[string]*tagged),
		new([4]octet), new(octets), new([]octet), new(smallInt), new(keyName), new([]keyName),
		new(embedsHidden), new(*embedsHidden), new([]embedsHidden), new(map[string]embedsHidden), new([1]*embedsHidden),
		new(annotatedViaEmbedded), new(holder), new([]*tagged), new(*[]int), new([2]tagged), new(***int),
		new(func()), new(chan int), new(complex128), new(struct{}), new([0]int), new(map[string][2]byte),
	}...)
}

func baseTargets() []interface{} {
	return []interface{}{
		new(bool), new(int), new(int8), new(int16), new(int32), new(int64), new(uint), new(uint8), new(uint16), new(uint32), new(uint64),
		new(float32), new(float64), new(string), new([]byte), new([4]byte), new([]int), new([]string), new([]interface{}), new([3]int),
		new(map[string]interface{}), new(map[string]int), new(map[string]string), new(tagged), new(*tagged), new(embedded), new(interface{}),
		new(ion.Timestamp), new(ion.Decimal), new(*ion.Decimal), new(big.Int), new(*big.Int), new(time.Time), new(annotated), new(annotatedInt),
		new(*int), new(**string), new([]map[string][]int), new([][]byte), new(uintptr),
	}
}

var allocSample = []metrics.Sample{{Name: "/gc/heap/allocs:bytes"}}

func heapAllocs() uint64 {
	metrics.Read(allocSample)
	if allocSample[0].Value.Kind() == metrics.KindUint64 {
		return allocSample[0].Value.Uint64()
	}
	return 0
}

// RunHostile runs one hostile case under the panic, spin, progress and allocation watchdogs.
func RunHostile(c HostileCase) (out *HOutcome) {
	out = &HOutcome{}
	src := sim.NewSource(c.Data, c.Plan)
	budget := len(c.Data) + 16
	before := heapAllocs()
	call := "NewReader"
	defer func() {
		out.Reads = src.Reads
		if p := recover(); p != nil {
			if _, ok := p.(sim.Spin); ok {
				out.Spin = true
			} else if _, ok := p.(stop); ok {
				out.Overrun = true
			} else {
				out.Panic = fmt.Sprint(p)
				out.Frame = ionFrame()
				out.PanicCall = call
			}
		}
		after := heapAllocs()
		if after > before {
			out.AllocBytes = after - before
		}
	}()
	cat := BuildCatalog(c.Catalog, false, nil)
	r := ion.NewReaderCat(src, cat)
	next := func() bool {
		ok := r.Next()
		if ok {
			out.NextTrue++
			if out.NextTrue > budget {
				panic(stop{})
			}
		}
		return ok
	}
	switch c.Kind {
	case "calls":
		depth := 0
		for _, op := range c.Calls {
			call = ReaderOps[op%len(ReaderOps)]
			switch call {
			case "Next":
				next()
			case "Err":
				r.Err()
			case "Type":
				r.Type()
			case "IsNull":
				r.IsNull()
			case "Annotations":
				as, _ := r.Annotations()
				for i := range as {
					_ = as[i].String()
				}
			case "StepIn":
				if r.StepIn() == nil {
					depth++
				}
			case "StepOut":
				if r.StepOut() == nil {
					depth--
				}
			case "BoolValue":
				r.BoolValue()
			case "IntSize":
				r.IntSize()
			case "IntValue":
				r.IntValue()
			case "Int64Value":
				r.Int64Value()
			case "BigIntValue":
				r.BigIntValue()
			case "FloatValue":
				r.FloatValue()
			case "DecimalValue":
				if d, _ := r.DecimalValue(); d != nil {
					_ = d.String()
				}
			case "TimestampValue":
				if t, _ := r.TimestampValue(); t != nil {
					_ = t.String()
				}
			case "StringValue":
				r.StringValue()
			case "ByteValue":
				r.ByteValue()
			case "IsInStruct":
				r.IsInStruct()
			case "FieldName":
				if f, _ := r.FieldName(); f != nil {
					_ = f.String()
				}
			case "SymbolValue":
				if s, _ := r.SymbolValue(); s != nil {
					_ = s.String()
				}
			case "SymbolTable":
				if st := r.SymbolTable(); st != nil {
					st.MaxID()
					st.FindByID(10)
					st.FindByName("a")
					_ = st.String()
				}
			}
		}
		// drain
		call = "drain"
		for guard := 0; guard < budget+64; guard++ {
			for next() {
			}
			if r.StepOut() != nil {
				break
			}
		}
		if err := r.Err(); err != nil {
			out.Err = err.Error()
		}
	case "traverse":
		call = "traverse"
		var walk func(d int)
		walk = func(d int) {
			for next() {
				t := r.Type()
				r.FieldName()
				r.Annotations()
				switch t {
				case ion.IntType:
					r.IntValue()
					r.IntSize()
					r.Int64Value()
					if b, _ := r.BigIntValue(); b != nil {
						_ = b.String()
					}
				case ion.BoolType:
					r.BoolValue()
				case ion.FloatType:
					r.FloatValue()
				case ion.DecimalType:
					// what a caller does with a value it has read: print it, compare it, take it apart
					if v, _ := r.DecimalValue(); v != nil {
						_ = v.String()
						v.CoEx()
						v.Sign()
						v.Cmp(v)
					}
				case ion.TimestampType:
					if v, _ := r.TimestampValue(); v != nil {
						_ = v.String()
						v.GetDateTime()
						v.Equal(*v)
					}
				case ion.SymbolType:
					if v, _ := r.SymbolValue(); v != nil {
						_ = v.String()
					}
				case ion.StringType:
					r.StringValue()
				case ion.ClobType, ion.BlobType:
					r.ByteValue()
				case ion.ListType, ion.SexpType, ion.StructType:
					if !r.IsNull() && d < 200 {
						if r.StepIn() == nil {
							walk(d + 1)
							r.StepOut()
						}
					}
				}
				if st := r.SymbolTable(); st != nil && d == 0 {
					_ = st.String()
				}
			}
		}
		walk(0)
		if err := r.Err(); err != nil {
			out.Err = err.Error()
		}
	case "skim":
		// a navigating caller: per container, a cheap deterministic choice (from Target, used as a seed) between
		// skipping it, entering and reading it all, and entering and leaving after a few children
		call = "skim"
		h := uint64(c.Target)*0x9E3779B97F4A7C15 + 1
		var walk func(d int, limit int)
		walk = func(d int, limit int) {
			seen := 0
			for (limit < 0 || seen < limit) && next() {
				seen++
				t := r.Type()
				r.FieldName()
				r.Annotations()
				switch t {
				case ion.ListType, ion.SexpType, ion.StructType:
					h = h*6364136223846793005 + 1442695040888963407
					choice := (h >> 33) % 4
					if r.IsNull() || d > 200 || choice == 0 {
						continue // skip it
					}
					if r.StepIn() == nil {
						if choice == 1 {
							walk(d+1, -1)
						} else {
							walk(d+1, int((h>>40)%3))
						}
						r.StepOut()
					}
				case ion.StringType:
					r.StringValue()
				case ion.SymbolType:
					r.SymbolValue()
				}
			}
		}
		walk(0, -1)
		if err := r.Err(); err != nil {
			out.Err = err.Error()
		}
	case "decode":
		call = "Decoder.Decode"
		d := ion.NewDecoder(r)
		for {
			_, err := d.Decode()
			if err != nil {
				out.Err = err.Error()
				break
			}
			out.Decoded++
			if out.Decoded > budget {
				panic(stop{})
			}
		}
	case "unmarshal":
		ts := Targets()
		t := ts[c.Target%len(ts)]
		call = fmt.Sprintf("Decoder.DecodeTo(%T)", t)
		d := ion.NewDecoder(r)
		for i := 0; i < 3; i++ {
			if err := d.DecodeTo(t); err != nil {
				out.Err = err.Error()
				break
			}
			out.Decoded++
		}
	}
	return out
}

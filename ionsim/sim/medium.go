package sim

// MediumFault is a fault applied to the stored bytes before the reader starts: the library analogue of a
// crash (the producer died or the medium lied).
type MediumFault struct {
	Kind string `json:"kind"` // truncate | flip | set | zero | dup | splice | insert
	At   int    `json:"at"`
	Len  int    `json:"len,omitempty"`
	To   int    `json:"to,omitempty"`
	Bit  uint   `json:"bit,omitempty"`
	Byte byte   `json:"byte,omitempty"`
	Data []byte `json:"data,omitempty"`
}

func clamp(x, lo, hi int) int {
	if x < lo {
		return lo
	}
	if x > hi {
		return hi
	}
	return x
}

// ApplyMedium returns a damaged copy of data.
func ApplyMedium(data []byte, f MediumFault) []byte {
	out := append([]byte(nil), data...)
	n := len(out)
	switch f.Kind {
	case "truncate":
		return out[:clamp(f.At, 0, n)]
	case "flip":
		if n == 0 {
			return out
		}
		out[clamp(f.At, 0, n-1)] ^= 1 << (f.Bit % 8)
	case "set":
		if n == 0 {
			return out
		}
		out[clamp(f.At, 0, n-1)] = f.Byte
	case "zero":
		a := clamp(f.At, 0, n)
		b := clamp(f.At+f.Len, a, n)
		for i := a; i < b; i++ {
			out[i] = 0
		}
	case "drop": // lost block: bytes removed
		a := clamp(f.At, 0, n)
		b := clamp(f.At+f.Len, a, n)
		out = append(out[:a], out[b:]...)
	case "dup": // block written twice
		a := clamp(f.At, 0, n)
		b := clamp(f.At+f.Len, a, n)
		blk := append([]byte(nil), out[a:b]...)
		tail := append([]byte(nil), out[b:]...)
		out = append(append(out[:b], blk...), tail...)
	case "splice": // block written to the wrong place: copy [At,At+Len) over position To
		a := clamp(f.At, 0, n)
		b := clamp(f.At+f.Len, a, n)
		t := clamp(f.To, 0, n)
		blk := append([]byte(nil), out[a:b]...)
		for i := 0; i < len(blk) && t+i < n; i++ {
			out[t+i] = blk[i]
		}
	case "insert":
		a := clamp(f.At, 0, n)
		tail := append([]byte(nil), out[a:]...)
		out = append(append(out[:a], f.Data...), tail...)
	case "replace": // replace [At,At+Len) by Data
		a := clamp(f.At, 0, n)
		b := clamp(f.At+f.Len, a, n)
		tail := append([]byte(nil), out[b:]...)
		out = append(append(out[:a], f.Data...), tail...)
	}
	return out
}

// ApplyAll applies faults in order.
func ApplyAll(data []byte, fs []MediumFault) []byte {
	for _, f := range fs {
		data = ApplyMedium(data, f)
	}
	return data
}

package model

import "math/big"

// This file is the symbol-context model: the ID space as the Ion 1.0 specification assembles it.
// It is the oracle of C10 and is used by the reference decoders to resolve symbol IDs.

// SystemSymbols are IDs 1..9 of $ion version 1.
var SystemSymbols = []string{"$ion", "$ion_1_0", "$ion_symbol_table", "name", "version", "imports", "symbols", "max_id", "$ion_shared_symbol_table"}

// Slot is one symbol ID: text or unknown text.
type Slot struct {
	Text  string `json:"t,omitempty"`
	Known bool   `json:"k,omitempty"`
	// Run > 1: this entry stands for Run consecutive IDs without text (the padding of an import whose declared max_id
	// lies far beyond its table, up to 2^40 and more); 0 and 1 both mean a single ID.
	Run int64 `json:"run,omitempty"`
}

func (s Slot) width() int64 {
	if s.Run > 1 {
		return s.Run
	}
	return 1
}

// Shared is a shared symbol table held by a catalog.
type Shared struct {
	Name    string   `json:"name"`
	Version int      `json:"version"`
	Symbols []string `json:"symbols"`
}

// Catalog is the model of a table repository: any set of (name, version) tables.
type Catalog struct {
	Tables []Shared `json:"tables"`
}

func (c *Catalog) FindExact(name string, version int) *Shared {
	if c == nil {
		return nil
	}
	for i := range c.Tables {
		if c.Tables[i].Name == name && c.Tables[i].Version == version {
			return &c.Tables[i]
		}
	}
	return nil
}

// FindLatest returns the table of that name with the largest version.
func (c *Catalog) FindLatest(name string) *Shared {
	if c == nil {
		return nil
	}
	var best *Shared
	for i := range c.Tables {
		if c.Tables[i].Name == name && (best == nil || c.Tables[i].Version > best.Version) {
			best = &c.Tables[i]
		}
	}
	return best
}

// Context is the symbol context in force: Slots[i] is symbol ID i+1.
type Context struct {
	Slots []Slot
}

// NewContext returns the system context (IDs 1..9).
func NewContext() *Context {
	c := &Context{}
	c.Reset()
	return c
}

func (c *Context) Reset() {
	c.Slots = c.Slots[:0]
	for _, s := range SystemSymbols {
		c.Slots = append(c.Slots, Slot{Text: s, Known: true})
	}
}

func (c *Context) MaxID() int64 {
	var n int64
	for _, s := range c.Slots {
		n += s.width()
	}
	return n
}

// Lookup returns the slot for an ID; ok=false when the ID is outside 0..MaxID. ID 0 has no text.
func (c *Context) Lookup(id int64) (Slot, bool) {
	if id == 0 {
		return Slot{}, true
	}
	if id < 0 {
		return Slot{}, false
	}
	at := int64(0)
	for _, s := range c.Slots {
		w := s.width()
		if id <= at+w {
			if w > 1 {
				return Slot{}, true
			}
			return s, true
		}
		at += w
	}
	return Slot{}, false
}

// Resolve turns an ID into the Sym it denotes in this context.
func (c *Context) Resolve(id int64) (Sym, bool) {
	s, ok := c.Lookup(id)
	if !ok {
		return Sym{}, false
	}
	if s.Known {
		return T(s.Text), true
	}
	return ID(id), true
}

// FindText returns the lowest ID carrying text, or 0.
func (c *Context) FindText(text string) int64 {
	at := int64(0)
	for _, s := range c.Slots {
		if s.Known && s.Text == text {
			return at + 1
		}
		at += s.width()
	}
	return 0
}

// IDsOf returns every ID at or above from that carries text.
func (c *Context) IDsOf(text string, from int64) []int64 {
	var out []int64
	at := int64(0)
	for _, s := range c.Slots {
		if s.Known && s.Text == text && at+1 >= from {
			out = append(out, at+1)
		}
		at += s.width()
	}
	return out
}

// ImportDecl is one entry of an imports list as it appears in a stream.
type ImportDecl struct {
	Name     string `json:"name"`
	Version  int    `json:"version"` // as declared; <1 is treated as 1
	MaxID    int64  `json:"max_id"`  // meaningful when HasMaxID
	HasMaxID bool   `json:"has_max_id,omitempty"`
}

// LSTDecl is the meaning-bearing content of a local symbol table struct.
type LSTDecl struct {
	Append  bool         `json:"append,omitempty"` // imports: $ion_symbol_table
	Imports []ImportDecl `json:"imports,omitempty"`
	Symbols []Slot       `json:"symbols,omitempty"` // non-string entries are unknown-text slots
}

// ErrNoMaxID is reported by Apply when an import has no usable max_id and no exact catalog match.
type ErrNoMaxID struct{ Name string }

func (e *ErrNoMaxID) Error() string { return "import " + e.Name + " lacks max_id and exact match" }

// Apply installs a local symbol table declaration, resolving imports against the catalog:
// exact (name, version), else the latest version of that name cut or padded to max_id, else unknown text.
func (c *Context) Apply(d LSTDecl, cat *Catalog) error {
	var slots []Slot
	if d.Append {
		slots = append(slots, c.Slots...)
	} else {
		for _, s := range SystemSymbols {
			slots = append(slots, Slot{Text: s, Known: true})
		}
		for _, imp := range d.Imports {
			if imp.Name == "" || imp.Name == "$ion" {
				continue
			}
			ver := imp.Version
			if ver < 1 {
				ver = 1
			}
			exact := cat.FindExact(imp.Name, ver)
			tab := exact
			if tab == nil {
				tab = cat.FindLatest(imp.Name)
			}
			max := imp.MaxID
			if !imp.HasMaxID || max < 0 {
				if exact == nil {
					return &ErrNoMaxID{imp.Name}
				}
				max = int64(len(exact.Symbols))
			}
			for i := int64(0); i < max; i++ {
				if tab != nil && i < int64(len(tab.Symbols)) {
					slots = append(slots, Slot{Text: tab.Symbols[i], Known: true})
				} else if max-i > 64 {
					slots = append(slots, Slot{Run: max - i}) // a long stretch of padding as one entry
					break
				} else {
					slots = append(slots, Slot{})
				}
			}
		}
	}
	slots = append(slots, d.Symbols...)
	c.Slots = slots
	return nil
}

// DeclFromStruct interprets a model struct value (already known to be a local symbol table) as an LSTDecl,
// following the rules of DESIGN.md appendix A. resolve maps symbol values inside the struct (needed to
// recognise imports:$ion_symbol_table given by ID).
func DeclFromStruct(v *Value) LSTDecl {
	var d LSTDecl
	seenImports, seenSymbols := false, false
	for _, f := range v.Kids {
		if f.Field == nil || !f.Field.HasText {
			continue
		}
		switch f.Field.Text {
		case "imports":
			if seenImports {
				continue
			}
			seenImports = true
			if f.Kind == Symbol && !f.IsNull && f.Sym.HasText && f.Sym.Text == "$ion_symbol_table" {
				d.Append = true
				continue
			}
			if f.Kind != List || f.IsNull {
				continue
			}
			for _, e := range f.Kids {
				if e.Kind != Struct || e.IsNull {
					continue
				}
				var imp ImportDecl
				imp.Version = 1
				for _, g := range e.Kids {
					if g.Field == nil || !g.Field.HasText {
						continue
					}
					switch g.Field.Text {
					case "name":
						if g.Kind == String && !g.IsNull {
							imp.Name = g.Str
						}
					case "version":
						if g.Kind == Int && !g.IsNull && g.Int.IsInt64() && g.Int.Int64() >= 1 && g.Int.Cmp(big.NewInt(1<<31-1)) <= 0 {
							imp.Version = int(g.Int.Int64())
						}
					case "max_id":
						if g.Kind == Int && !g.IsNull && g.Int.Sign() >= 0 && g.Int.IsInt64() {
							imp.MaxID = g.Int.Int64()
							imp.HasMaxID = true
						}
					}
				}
				d.Imports = append(d.Imports, imp)
			}
		case "symbols":
			if seenSymbols {
				continue
			}
			seenSymbols = true
			if f.Kind != List || f.IsNull {
				continue
			}
			for _, e := range f.Kids {
				if e.Kind == String && !e.IsNull {
					d.Symbols = append(d.Symbols, Slot{Text: e.Str, Known: true})
				} else {
					d.Symbols = append(d.Symbols, Slot{})
				}
			}
		}
	}
	return d
}

// IsLST reports whether a top-level value is a local symbol table: a non-null struct whose first
// annotation is $ion_symbol_table.
func IsLST(v *Value) bool {
	return v.Kind == Struct && !v.IsNull && len(v.Annots) > 0 && v.Annots[0].HasText && v.Annots[0].Text == "$ion_symbol_table"
}

package scenario

import (
	"bytes"
	"encoding/json"
	"fmt"
	big2 "math/big"
	"strings"

	"ionsim/drive"
	"ionsim/model"
	"ionsim/prng"
	"ionsim/render"
	"ionsim/sim"
)

// chunkfault decides C19: results do not depend on I/O chunking, and I/O failures are reported.
type chunkfault struct{}

func init() { Register(chunkfault{}) }

func (chunkfault) Property() string { return "C19" }
func (chunkfault) Name() string     { return "chunkfault" }
func (chunkfault) Level() string    { return "fault_enumeration" }
func (chunkfault) Indices(tier string) int {
	if tier == "thorough" {
		return 30000
	}
	return 1440
}
func (chunkfault) Rule() string {
	return "Per run index: one seeded document (text or binary, independent renderer with swarm spelling/encoding choices; 1 in 4 " +
		"damaged by a stored-medium fault so that 'same final error' is exercised). Reader side, for each of three caller programs " +
		"(full traversal, top-level skip, seeded navigation): every two-chunk split point, byte-at-a-time, seeded random and " +
		"boundary-biased plans (with empty reads and EOF-with-data variants), then a read failure at every byte offset 0..len in four " +
		"variants (sticky/transient x with/without data x 4 error identities). One index in 16 adds a document holding a string / clob / blob of 4 KiB..200 000 bytes (last in the stream, followed by more, nested) read under chunk plans with pieces of 1000..100 000 bytes, end of data with or after the last bytes, and read failures at offsets around 4096, 8192, 65536 and the end. Writer side, for each writer configuration (text, pretty, both also with TextWriterQuietFinish, binary, binary " +
		"with fixed table; one document in six carries a value of 500..3000 bytes): a write failure at every Write call in six variants (sticky/transient x accept nothing / a short prefix / everything). " +
		"Documents over 600 bytes / 600 write calls have offsets sampled instead of enumerated. A case is distinct by hash of " +
		"(stored bytes, delivery plan, fault, program) resp. (configuration, call sequence, fault); non-trivial = the fault fired " +
		"(the Read/Write call that carried it was made) or, for fault-free plans, the plan has at least one chunk boundary."
}
func (chunkfault) Assumptions() []string {
	return []string{
		"Go runtime and bufio behave as documented",
		"the reference outcome is ion-go's own traversal over whole delivery (self-referential by design: the property says 'the same as all at once')",
		"strict reading of R2 since fix: commits 6648177 and f2dfc50: every injected read failure that fired, one-time ones included, must end in a non-nil Err (the lenient reading of DESIGN C19.R2 for swallowed one-time failures was dropped once the two places where the unchanged tree swallowed them were repaired)",
		"render byte maps are used only to aim boundary-biased plans, never to judge",
	}
}
func (chunkfault) Components() map[string]string {
	return map[string]string{
		"ion package (Reader, Writer, tokenizer, bitstream, symbol tables)": "real code from /repo working tree",
		"io.Reader under the Reader":                                        "stub: sim.Source (delivery plan + injected failure)",
		"io.Writer under the Writer":                                        "stub: sim.Sink (records calls, injected failure)",
		"bufio.Reader":                                                      "real (Go standard library)",
	}
}

// cfCase is the explicit replay case of C19.
type cfCase struct {
	Kind string `json:"kind"` // read | write
	// read
	Read *drive.ReadCase `json:"read,omitempty"`
	// write
	Cfg   *drive.WriterCfg `json:"cfg,omitempty"`
	Ops   []drive.WOp      `json:"ops,omitempty"`
	WPlan *sim.WritePlan   `json:"wplan,omitempty"`
}

// Error identities of injected failures: the simulator's own sentinel, and values real readers and writers return.
var readErrKinds = []string{"", "unexpected-eof", "closed-pipe", "wrapped-eof"}
var writeErrKinds = []string{"", "short-write", "closed-pipe"}

func errKindName(k string) string {
	if k == "" {
		return "sim-sentinel"
	}
	return k
}

var writeProbes = []drive.WOp{{Op: "int", V: model.NewInt(7)}, {Op: "finish"}, {Op: "finish"}}

// largeValues is the sub-scenario for values far beyond the 4096-byte buffer and the 64 KiB mark: the per-byte
// enumeration is replaced by chunk plans with large pieces (so that buffered and bypassing reads both occur), end of
// data delivered with or after the last bytes, and read failures at sampled offsets around the interesting marks.
func (s chunkfault) largeValues(c *Ctx, r *prng.Rand, text bool) {
	n := []int{4095, 4096, 4097, 8192, 65535, 65536, 65537, 70000, 131073, 200000}[r.Intn(10)]
	b := make([]byte, n)
	for i := range b {
		b[i] = 'a' + byte((i*7+n)%26)
	}
	var big *model.Value
	switch r.Intn(3) {
	case 0:
		big = model.NewString(string(b))
	case 1:
		big = model.NewLob(model.Clob, b)
	default:
		for i := range b {
			b[i] = byte(i*31 + n)
		}
		big = model.NewLob(model.Blob, b)
	}
	var vals []*model.Value
	switch r.Intn(4) {
	case 0: // the large value is the last thing in the stream
		vals = []*model.Value{model.NewInt(1), big}
	case 1:
		vals = []*model.Value{big, model.NewInt(2)}
	case 2:
		vals = []*model.Value{model.NewSeq(model.List, model.NewInt(1), big), model.NewString("after")}
	default:
		vals = []*model.Value{model.NewSeq(model.Sexp, big, model.NewInt(3))}
	}
	var data []byte
	if text {
		// spellings that put escapes, quote runs, comment terminators and base64 groups at the places where the 4096-byte
		// buffer refills: escapes and quotes inside the long value, long strings in segments, a block and a line
		// comment longer than the buffer in front of it
		if big.Kind == model.String || big.Kind == model.Clob {
			alphabet := []string{"a", "b", "'", "\"", "\\", "\n", "''", "é", "😀", "*/", "//", "{{", "}}", "\t", " "}
			if big.Kind == model.Clob {
				alphabet = []string{"a", "b", "'", "\"", "\\", "\n", "''", "*/", "//", "}}", "\x01", " "}
			}
			var sb strings.Builder
			for sb.Len() < n {
				sb.WriteString(alphabet[r.Intn(len(alphabet))])
			}
			if big.Kind == model.String {
				big.Str = sb.String()
			} else {
				big.Bytes = []byte(sb.String())
			}
		}
		o := render.SwarmText(r.Fork())
		o.LongStr, o.Escapes, o.LobWS = r.Bool(), true, r.Bool()
		body := render.Text(render.Values(vals), o).Bytes
		var pre []byte
		if r.Bool() {
			pre = append(pre, []byte("/*"+strings.Repeat("* /'''\"", r.Range(600, 1500))+"*/ ")...)
		}
		if r.Bool() {
			pre = append(pre, []byte("//"+strings.Repeat("*/ \\ ' ", r.Range(600, 1500))+"\n")...)
		}
		data = append(pre, body...)
	} else {
		data = render.Binary(render.Values(vals), render.BinOpts{Auto: true}).Bytes
	}
	c.Count("docs.large-value", 1)
	for _, prog := range []drive.Program{drive.Full, drive.TopSkip} {
		base := drive.RunRead(drive.ReadCase{KeepSID: true, Data: data, Plan: planWhole(), Prog: prog})
		c.Steps += int64(base.Reads)
		if base.Panic != "" || base.Spin {
			continue
		}
		baseKey := base.Key()
		var plans []sim.ReadPlan
		pw := planWhole()
		pw.EOFWithLast = true
		plans = append(plans, pw)
		for _, tail := range []int{1000, 4095, 4096, 4097, 8192, 32768, 65536, 100000} {
			for _, eofWith := range []bool{false, true} {
				p := sim.ReadPlan{Name: "large-chunks", Tail: tail, EOFWithLast: eofWith}
				if r.Bool() {
					p.Steps = []int{r.Range(1, 5000)}
				}
				plans = append(plans, p)
			}
		}
		for j := 0; j < 6; j++ {
			p := planRandom(r, 20000, false)
			p.Tail = r.Range(2000, 70000)
			p.EOFWithLast = r.Bool()
			plans = append(plans, p)
		}
		for _, p := range plans {
			rc := drive.ReadCase{KeepSID: true, Data: data, Plan: p, Prog: prog}
			oc := drive.RunRead(rc)
			c.Steps += int64(oc.Reads)
			c.Count("r1.runs", 1)
			c.Count("r1.large-value-runs", 1)
			c.DistinctU(hashRead(data[:64], oc.SrcHash, prog))
			s.checkRead(c, rc, oc, baseKey, "R1")
		}
		// the stream torn at a few points, from a plain and from a seekable source, in large pieces and whole: the outcome
		// (values and final error) must be the same as for whole delivery of the same torn bytes
		for j := 0; j < 6; j++ {
			cut := data[:1+r.Intn(len(data)-1)]
			tb := drive.RunRead(drive.ReadCase{KeepSID: true, Data: cut, Plan: planWhole(), Prog: prog})
			if tb.Panic != "" || tb.Spin {
				continue
			}
			for _, rc := range []drive.ReadCase{
				{KeepSID: true, Data: cut, Plan: planWhole(), Prog: prog, Seekable: true},
				{KeepSID: true, Data: cut, Plan: sim.ReadPlan{Name: "large-chunks", Tail: 4096}, Prog: prog},
				{KeepSID: true, Data: cut, Plan: sim.ReadPlan{Name: "large-chunks", Tail: 1000, EOFWithLast: true}, Prog: prog},
			} {
				oc := drive.RunRead(rc)
				c.Steps += int64(oc.Reads)
				c.Count("r1.runs", 1)
				c.Count("r1.torn-large-value-runs", 1)
				s.checkRead(c, rc, oc, tb.Key(), "R1")
			}
		}
		// read failures at sampled offsets
		offs := []int{0, 3, 4, 5, 4095, 4096, 4097, 8191, 8192, 65535, 65536, 65537, len(data) - 4097, len(data) - 4096, len(data) - 2, len(data) - 1, len(data)}
		for j := 0; j < 8; j++ {
			offs = append(offs, r.Intn(len(data)+1))
		}
		for _, k := range offs {
			if k < 0 || k > len(data) {
				continue
			}
			for v := 0; v < 4; v++ {
				p := sim.ReadPlan{Name: "large-chunks", Tail: []int{4096, 8192, 70000, 1000}[(k+v)%4]}
				p.Fault = &sim.ReadFault{At: k, Sticky: v&1 == 1, WithData: v&2 == 2, ErrKind: readErrKinds[(k+v)%4]}
				rc := drive.ReadCase{KeepSID: true, Data: data, Plan: p, Prog: prog}
				oc := drive.RunRead(rc)
				c.Steps += int64(oc.Reads)
				c.Count("r2.runs", 1)
				if oc.FaultFired {
					c.Count("fault.read-in-large-value.fired", 1)
				}
				s.checkRead(c, rc, oc, baseKey, "R2")
			}
		}
	}
}

func (s chunkfault) Run(c *Ctx, i int) {
	if i%16 == 5 {
		s.largeValues(c, prng.New(prng.Mix(c.Seed, 1919, uint64(i))), i%32 == 5)
	}
	r := prng.New(prng.Mix(c.Seed, 19, uint64(i)))
	doc := genDoc(r, i%2 == 0, 5)
	data := doc.Out.Bytes
	marks := doc.Out.Map
	damaged := false
	if r.Chance(1, 4) && len(data) > 0 {
		var f sim.MediumFault
		switch r.Intn(3) {
		case 0:
			f = sim.MediumFault{Kind: "truncate", At: r.Intn(len(data))}
		case 1:
			f = sim.MediumFault{Kind: "flip", At: r.Intn(len(data)), Bit: uint(r.Intn(8))}
		default:
			f = sim.MediumFault{Kind: "set", At: r.Intn(len(data)), Byte: byte(r.Intn(256))}
		}
		data = sim.ApplyMedium(data, f)
		marks = nil
		damaged = true
		c.Count("docs.damaged", 1)
	}
	c.Count("docs."+doc.Format, 1)
	if i < 4 {
		c.Sample(map[string]interface{}{"index": i, "format": doc.Format, "damaged": damaged, "bytes_hex": fmt.Sprintf("%x", data), "text": textOrEmpty(doc.Format, data)})
	}
	progs := []drive.Program{drive.Full, drive.TopSkip, navProgram(r.Fork())}
	rr := r.Fork()
	for _, prog := range progs {
		s.readSide(c, rr, data, marks, prog)
	}
	if !damaged {
		s.writeSide(c, r.Fork(), doc.Values)
	}
}

func textOrEmpty(format string, data []byte) string {
	if format == "text" {
		return string(data)
	}
	return ""
}

func (s chunkfault) readSide(c *Ctx, r *prng.Rand, data []byte, marks []render.Mark, prog drive.Program) {
	base := drive.RunRead(drive.ReadCase{KeepSID: true, Data: data, Plan: planWhole(), Prog: prog})
	c.Steps += int64(base.Reads)
	if base.Panic != "" || base.Spin {
		c.Count("read.baseline-panic-or-spin(skipped: C06 matter)", 1)
		return
	}
	baseKey := base.Key()
	n := len(data)
	var offsets []int
	if n <= 600 {
		for k := 0; k <= n; k++ {
			offsets = append(offsets, k)
		}
	} else {
		seen := map[int]bool{}
		add := func(k int) {
			if k >= 0 && k <= n && !seen[k] {
				seen[k] = true
				offsets = append(offsets, k)
			}
		}
		for _, k := range interesting(data, marks) {
			if r.Chance(1, 3) {
				add(k)
			}
		}
		for j := 0; j < 300; j++ {
			add(r.Intn(n + 1))
		}
		for _, k := range []int{0, 1, 2, 3, 4, 5, n - 1, n, 4095, 4096, 4097} {
			add(k)
		}
		c.Count("docs.large(offsets sampled)", 1)
	}
	// R1: delivery schedule independence.
	var plans []sim.ReadPlan
	for _, k := range offsets {
		if k <= 0 || k >= n {
			continue
		}
		p := planSplit(k)
		switch k % 4 {
		case 1:
			p.EOFWithLast = true
		case 2:
			p.Steps = []int{k, 0}
		case 3:
			p.Steps = []int{0, k, 0, 0}
			p.EOFWithLast = true
		}
		plans = append(plans, p)
	}
	plans = append(plans, planBytes())
	pb := planBytes()
	pb.EOFWithLast = true
	plans = append(plans, pb)
	for j := 0; j < 8; j++ {
		plans = append(plans, planRandom(r, n, j%2 == 1))
	}
	for j := 0; j < 4; j++ {
		plans = append(plans, planBiased(r, data, marks))
	}
	{
		// the same bytes from a source that can also seek (bytes.Reader, *os.File): one more way of "all at once"
		rc := drive.ReadCase{KeepSID: true, Data: data, Plan: planWhole(), Prog: prog, Seekable: true}
		oc := drive.RunRead(rc)
		c.Steps += int64(oc.Reads)
		c.Count("r1.runs", 1)
		c.Count("r1.seekable-source-runs", 1)
		s.checkRead(c, rc, oc, baseKey, "R1")
	}
	for _, p := range plans {
		rc := drive.ReadCase{KeepSID: true, Data: data, Plan: p, Prog: prog}
		oc := drive.RunRead(rc)
		c.Steps += int64(oc.Reads)
		c.Count("r1.runs", 1)
		if len(oc.Cuts) > 0 {
			c.Count("r1.runs-with-boundary", 1)
			c.DistinctU(hashRead(data, oc.SrcHash, prog))
			s.probes(c, data, marks, oc.Cuts)
		}
		s.checkRead(c, rc, oc, baseKey, "R1")
	}
	// R2: a read failure at every byte.
	for _, k := range offsets {
		for v := 0; v < 16; v++ {
			var p sim.ReadPlan
			switch (k + v) % 3 {
			case 0:
				p = planWhole()
			case 1:
				p = planRandom(r, n, false)
			default:
				p = planBytes()
			}
			p.Fault = &sim.ReadFault{At: k, Sticky: v&1 == 1, WithData: v&2 == 2, ErrKind: readErrKinds[v/4]}
			rc := drive.ReadCase{KeepSID: true, Data: data, Plan: p, Prog: prog}
			oc := drive.RunRead(rc)
			c.Steps += int64(oc.Reads)
			c.Count("r2.runs", 1)
			kind := map[bool]string{true: "sticky", false: "transient"}[p.Fault.Sticky]
			if oc.FaultFired {
				c.Count("fault.read-"+kind+".fired", 1)
				c.Count("fault.read-error-identity."+errKindName(p.Fault.ErrKind)+".fired", 1)
				c.DistinctU(hashRead(data, oc.SrcHash^uint64(k*4+v+1)*0x9E3779B97F4A7C15, prog))
			} else {
				c.Count("fault.read-"+kind+".armed-not-fired", 1)
			}
			s.checkRead(c, rc, oc, baseKey, "R2")
		}
	}
}

func hashRead(data []byte, srcHash uint64, prog drive.Program) uint64 {
	h := srcHash
	for _, b := range data {
		h = (h ^ uint64(b)) * 1099511628211
	}
	h = (h ^ uint64(len(prog.Kind))) * 1099511628211
	for _, d := range prog.Decisions {
		h = (h ^ uint64(d.Act*64+d.K*8+d.Refused+1)) * 1099511628211
	}
	return h
}

func (s chunkfault) probes(c *Ctx, data []byte, marks []render.Mark, cuts []int) {
	for _, k := range cuts {
		if k <= 0 || k >= len(data) {
			continue
		}
		a, b := data[k-1], data[k]
		if k < 4 {
			c.Count("probe.boundary-inside-4-byte-sniff", 1)
		}
		if a == '\r' && b == '\n' {
			c.Count("probe.boundary-between-CR-LF", 1)
		}
		if a == '\'' && b == '\'' {
			c.Count("probe.boundary-inside-quote-run", 1)
		}
		if a == ':' && b == ':' {
			c.Count("probe.boundary-inside-double-colon", 1)
		}
		if (a == '{' && b == '{') || (a == '}' && b == '}') {
			c.Count("probe.boundary-inside-double-brace", 1)
		}
		if (a == '+' || a == '-') && b == 'i' {
			c.Count("probe.boundary-inside-inf-probe", 1)
		}
		if a == '\\' {
			c.Count("probe.boundary-inside-escape", 1)
		}
		if k < len(marks) {
			switch marks[k].Role {
			case render.RLen:
				c.Count("probe.boundary-inside-varuint-length", 1)
			case render.RAnnotLen, render.RAnnotID:
				c.Count("probe.boundary-inside-annotation-header", 1)
			}
			if marks[k-1].Role == render.RAnnotID && marks[k].Role == render.RTag {
				c.Count("probe.boundary-between-annotation-header-and-value", 1)
			}
		}
	}
}

// checkRead applies the reader-side oracle.
func (s chunkfault) checkRead(c *Ctx, rc drive.ReadCase, oc *drive.Outcome, baseKey string, sub string) {
	fm := format(rc.Data)
	cs := cfCase{Kind: "read", Read: &rc}
	if oc.Panic != "" {
		c.Report("C19", "C19.P", "C19.P/"+fm+"/"+oc.Frame+"/"+drive.PanicClass(oc.Panic), "panic: "+oc.Panic, cs)
		return
	}
	if oc.Spin {
		c.Report("C19", "C19.L", "C19.L/"+fm+"/"+rc.Prog.Kind, "reader keeps calling Read after end of data / permanent failure", cs)
		return
	}
	if oc.StickyChecked && !oc.StickyOK {
		c.Report("C19", "C19.R2S", "C19.R2S/"+fm+"/"+rc.Prog.Kind, oc.StickyDetail, cs)
	}
	key := oc.Key()
	f := rc.Plan.Fault
	if f == nil || !oc.FaultFired {
		if key != baseKey {
			c.Report("C19", "C19.R1", "C19.R1/"+fm+"/"+rc.Prog.Kind, "outcome differs from whole delivery:\n got: "+trunc(diffTail(key, baseKey), 300), cs)
		}
		return
	}
	if oc.Err != "" {
		return // reported
	}
	// fault fired, no error
	kind := map[bool]string{true: "sticky", false: "transient"}[f.Sticky]
	if !f.Sticky && key == baseKey {
		// the failing Read was followed by successful ones and every value still came back: nothing was lost, but the
		// failure was never reported
		c.Report("C19", "C19.R2E", "C19.R2E/"+fm+"/"+rc.Prog.Kind+"/transient-swallowed", fmt.Sprintf("one-time read failure at byte %d fired, every later Read succeeded, and the traversal ended with Err()==nil: the failure was swallowed", f.At), cs)
		return
	}
	if key != baseKey {
		c.Report("C19", "C19.R2N", "C19.R2N/"+fm+"/"+rc.Prog.Kind+"/"+kind, fmt.Sprintf("read failure at byte %d fired, Err()==nil and the trace differs from the fault-free one:\n %s", f.At, trunc(diffTail(key, baseKey), 300)), cs)
		return
	}
	c.Report("C19", "C19.R2E", "C19.R2E/"+fm+"/"+rc.Prog.Kind+"/"+kind, fmt.Sprintf("permanent read failure at byte %d fired but the traversal ended with Err()==nil", f.At), cs)
}

// diffTail shows where two keys diverge.
func diffTail(a, b string) string {
	i := 0
	for i < len(a) && i < len(b) && a[i] == b[i] {
		i++
	}
	st := i - 40
	if st < 0 {
		st = 0
	}
	return fmt.Sprintf("@%d got=%q want=%q", i, trunc(a[st:], 120), trunc(b[st:], 120))
}

func symbolTexts(vals []*model.Value) []string {
	seen := map[string]bool{}
	var out []string
	var walk func(v *model.Value)
	add := func(s model.Sym) {
		if s.HasText && !seen[s.Text] {
			seen[s.Text] = true
			out = append(out, s.Text)
		}
	}
	walk = func(v *model.Value) {
		if v.Field != nil {
			add(*v.Field)
		}
		for _, a := range v.Annots {
			add(a)
		}
		if v.Kind == model.Symbol && v.Sym != nil && !v.IsNull {
			add(*v.Sym)
		}
		for _, k := range v.Kids {
			walk(k)
		}
	}
	for _, v := range vals {
		walk(v)
	}
	return out
}

func (s chunkfault) writeSide(c *Ctx, r *prng.Rand, vals []*model.Value) {
	if r.Chance(1, 6) {
		// a bulky value (well beyond any small internal batching size) somewhere in the document
		n := r.Range(500, 3000)
		b := make([]byte, n)
		for i := range b {
			b[i] = byte('a' + (i*7+n)%26)
		}
		var big *model.Value
		switch r.Intn(3) {
		case 0:
			big = model.NewString(string(b))
		case 1:
			big = model.NewLob(model.Blob, b)
		default:
			big = model.NewBig(new(big2.Int).SetBytes(b[:r.Range(64, 500)]))
		}
		at := r.Intn(len(vals) + 1)
		vals = append(append(append([]*model.Value{}, vals[:at]...), big), vals[at:]...)
		if r.Bool() {
			vals = append(vals, model.NewSeq(model.List, model.NewInt(1), model.NewSeq(model.Struct)))
		}
		c.Count("docs.with-bulky-value(write side)", 1)
	}
	ops := append(drive.DocOps(vals), drive.WOp{Op: "finish"})
	finishIdx := len(ops) - 1
	all := append(append([]drive.WOp(nil), ops...), writeProbes...)
	cfgs := []drive.WriterCfg{{Kind: "text"}, {Kind: "pretty"}, {Kind: "binary"}, {Kind: "binary-lst", LSTSymbols: symbolTexts(vals)},
		{Kind: "text", Quiet: true}, {Kind: "pretty", Quiet: true},
		{Kind: "text", Shared: sharedPool[:1]}, {Kind: "pretty", Shared: sharedPool[1:]}, {Kind: "binary", Shared: sharedPool[:1]}}
	for _, cfg := range cfgs {
		base := drive.RunWrite(cfg, all, sim.WritePlan{}, false)
		c.Steps += int64(base.Sink.Calls)
		if base.Panic != "" {
			c.Count("write.baseline-panic(skipped: C12 matter)", 1)
			continue
		}
		bad := false
		for _, e := range base.Errs[:finishIdx+1] {
			if e != "" {
				bad = true
			}
		}
		if bad {
			c.Count("write.baseline-refused(skipped)", 1)
			continue
		}
		// number of write calls up to the end of the first Finish
		w := drive.RunWrite(cfg, ops, sim.WritePlan{}, false)
		W := w.Sink.Calls
		B := w.Sink.Accepted
		var calls []int
		if W <= 600 {
			for j := 0; j < W; j++ {
				calls = append(calls, j)
			}
		} else {
			for j := 0; j < 300; j++ {
				calls = append(calls, r.Intn(W))
			}
			calls = append(calls, 0, 1, 2, 3, W-1)
		}
		for _, j := range calls {
			for v := 0; v < 6; v++ {
				plan := sim.WritePlan{Fault: &sim.WriteFault{Call: j, Sticky: v&1 == 1, ErrKind: writeErrKinds[(j+v)%3]}}
				if v&2 == 2 {
					plan.Fault.Short = 1 + r.Intn(3)
				}
				if v >= 4 {
					plan.Fault.Whole = true // every byte taken, error all the same
				}
				s.runWrite(c, cfg, all, finishIdx, plan, B)
			}
		}
		// disk-full budget at a few byte counts
		if len(B) > 0 {
			for q := 0; q < 3; q++ {
				plan := sim.WritePlan{Fault: &sim.WriteFault{Full: 1 + r.Intn(len(B))}}
				s.runWrite(c, cfg, all, finishIdx, plan, B)
			}
		}
	}
}

func (s chunkfault) runWrite(c *Ctx, cfg drive.WriterCfg, all []drive.WOp, finishIdx int, plan sim.WritePlan, B []byte) {
	oc := drive.RunWrite(cfg, all, plan, false)
	c.Steps += int64(oc.Sink.Calls)
	c.Count("w1.runs", 1)
	kind := "transient"
	if plan.Fault.Sticky {
		kind = "sticky"
	}
	if plan.Fault.Full > 0 {
		kind = "disk-full"
	}
	if oc.Sink.FaultFired() {
		c.Count("fault.write-"+kind+".fired", 1)
		if plan.Fault.Short > 0 {
			c.Count("fault.write-short-prefix.fired", 1)
		}
		c.DistinctU(oc.Sink.Hash ^ uint64(len(cfg.Kind))*0x9E3779B97F4A7C15 ^ uint64(plan.Fault.Call+1)<<20 ^ uint64(plan.Fault.Full)<<40)
	} else {
		c.Count("fault.write-"+kind+".armed-not-fired", 1)
	}
	s.checkWrite(c, cfg, all, finishIdx, plan, oc, B)
}

func (s chunkfault) checkWrite(c *Ctx, cfg drive.WriterCfg, all []drive.WOp, finishIdx int, plan sim.WritePlan, oc *drive.WOutcome, B []byte) {
	cs := cfCase{Kind: "write", Cfg: &cfg, Ops: all, WPlan: &plan}
	if oc.Panic != "" {
		c.Report("C19", "C19.P", "C19.P/"+cfg.Kind+"/"+oc.Frame+"/"+drive.PanicClass(oc.Panic), fmt.Sprintf("panic in call %d (%s): %s", oc.PanicAt, all[oc.PanicAt].Op, oc.Panic), cs)
		return
	}
	if !oc.Sink.FaultFired() {
		return
	}
	first := -1
	for i, e := range oc.Errs {
		if e != "" {
			first = i
			break
		}
	}
	// the failing Write happened during call FailOp: some call from there up to and including the next
	// Finish must return an error.
	nextFinish := len(all) - 1
	for i := oc.FailOp; i >= 0 && i < len(all); i++ {
		if all[i].Op == "finish" {
			nextFinish = i
			break
		}
	}
	if first < 0 || first > nextFinish {
		c.Report("C19", "C19.W1E", "C19.W1E/"+cfg.Kind+"/"+all[oc.FailOp].Op, fmt.Sprintf("Write call %d failed during call %d (%s) but no call up to and including the next Finish (call %d) returned an error", oc.Sink.FirstFailCall, oc.FailOp, all[oc.FailOp].Op, nextFinish), cs)
	} else {
		for i := first + 1; i < len(oc.Errs); i++ {
			if all[i].Op == "isinstruct" {
				continue
			}
			if oc.Errs[i] == "" {
				c.Report("C19", "C19.W1S", "C19.W1S/"+cfg.Kind+"/"+all[first].Op, fmt.Sprintf("call %d (%s) returned the failure but later call %d (%s) returned nil", first, all[first].Op, i, all[i].Op), cs)
				break
			}
		}
	}
	acc := oc.Sink.Accepted[:oc.Sink.AcceptedAtFirstFail]
	if !bytes.HasPrefix(B, acc) {
		c.Report("C19", "C19.W1X", "C19.W1X/"+cfg.Kind, fmt.Sprintf("bytes accepted up to the first failure (%d) are not a prefix of the fault-free output", len(acc)), cs)
	}
}

func (s chunkfault) Replay(c *Ctx, caseJSON []byte) error {
	var cs cfCase
	if err := json.Unmarshal(caseJSON, &cs); err != nil {
		return err
	}
	switch cs.Kind {
	case "read":
		base := drive.RunRead(drive.ReadCase{KeepSID: true, Data: cs.Read.Data, Plan: planWhole(), Prog: cs.Read.Prog})
		oc := drive.RunRead(*cs.Read)
		s.checkRead(c, *cs.Read, oc, base.Key(), "replay")
	case "write":
		finishIdx := len(cs.Ops) - len(writeProbes) - 1
		w := drive.RunWrite(*cs.Cfg, cs.Ops[:finishIdx+1], sim.WritePlan{}, false)
		oc := drive.RunWrite(*cs.Cfg, cs.Ops, *cs.WPlan, false)
		s.checkWrite(c, *cs.Cfg, cs.Ops, finishIdx, *cs.WPlan, oc, w.Sink.Accepted)
	default:
		return fmt.Errorf("unknown case kind %q", cs.Kind)
	}
	return nil
}

func (s chunkfault) Shrink(caseJSON []byte) [][]byte {
	var cs cfCase
	if json.Unmarshal(caseJSON, &cs) != nil {
		return nil
	}
	var out [][]byte
	emit := func(x cfCase) {
		b, err := json.Marshal(x)
		if err == nil {
			out = append(out, b)
		}
	}
	switch cs.Kind {
	case "read":
		for _, rc := range shrinkRead(*cs.Read) {
			rc := rc
			emit(cfCase{Kind: "read", Read: &rc})
		}
	case "write":
		probes := len(writeProbes)
		body := cs.Ops[:len(cs.Ops)-probes-1]
		for _, ops := range shrinkOps(body) {
			x := cs
			x.Ops = append(append(append([]drive.WOp(nil), ops...), drive.WOp{Op: "finish"}), writeProbes...)
			emit(x)
		}
		if cs.WPlan.Fault != nil && cs.WPlan.Fault.Call > 0 {
			for _, nc := range []int{0, cs.WPlan.Fault.Call / 2, cs.WPlan.Fault.Call - 1} {
				x := cs
				f := *cs.WPlan.Fault
				f.Call = nc
				x.WPlan = &sim.WritePlan{Fault: &f}
				emit(x)
			}
		}
	}
	return out
}

#!/bin/bash
# Determinism self-test: every scenario, several VERIF_SEED values, each run in separate processes with different
# worker counts and worker GOMAXPROCS; the RUN-DIGEST (all counters, the set of distinct case hashes, violations,
# logical I/O steps) must be identical across configurations of the same seed.
# usage: tools/selftest_determinism.sh [seeds] [props]     (defaults: "1 2 3 4 5 6 7 8", all scenarios)
cd "$(dirname "$0")/.." || exit 2
./ionsim.sh build >/dev/null || exit 2
SEEDS=${1:-"1 2 3 4 5 6 7 8"}
PROPS=${2:-"C06 C07 C08 C10 C12 C18 C19"}
declare -A IDX=( [C06]=1200 [C07]=600 [C08]=1500 [C10]=4000 [C12]=3000 [C18]=400 [C19]=64 )
fail=0; runs=0
for p in $PROPS; do
  for s in $SEEDS; do
    ref=""
    for cfg in "16 2" "1 1" "4 4" "16 16" "3 2" "16 2"; do
      set -- $cfg
      out=$(VERIF_SEED=$s IONSIM_NO_EVIDENCE=1 IONSIM_INDICES=${IDX[$p]} IONSIM_WORKERS=$1 IONSIM_WORKER_GOMAXPROCS=$2 IONSIM_C18_PARTS=A ./bin/ionsim check $p quick 2>&1)
      d=$(echo "$out" | grep '^RUN-DIGEST' | cut -d' ' -f2)
      runs=$((runs+1))
      # the unchanged tree must not raise an alarm under any seed either
      if echo "$out" | grep -q '^VIOLATION'; then echo "ALARM prop=$p seed=$s: $(echo "$out" | grep '^VIOLATION' | head -1)"; fail=1; fi
      if [ -z "$d" ]; then echo "NO DIGEST prop=$p seed=$s workers=$1 gomaxprocs=$2"; fail=1; continue; fi
      if [ -z "$ref" ]; then ref=$d; elif [ "$d" != "$ref" ]; then echo "NONDETERMINISM prop=$p seed=$s workers=$1 gomaxprocs=$2: $d != $ref"; fail=1; fi
    done
    echo "prop=$p seed=$s digest=$ref"
  done
done
echo "determinism self-test: $runs runs, fail=$fail"
exit $fail

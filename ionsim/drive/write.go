package drive

import (
	"fmt"
	"math"
	"math/big"
	"time"

	"github.com/amzn/ion-go/ion"

	"ionsim/model"
	"ionsim/ref"
	"ionsim/sim"
)

// simCatalog is the simulated table repository: any set of (name, version) tables, lookups counted,
// each lookup a scheduler yield point.
type simCatalog struct {
	tables  []ion.SharedSymbolTable
	Lookups int
	yield   func(string)
}

func (c *simCatalog) FindExact(name string, version int) ion.SharedSymbolTable {
	if c.yield != nil {
		c.yield("cat.FindExact")
	}
	c.Lookups++
	for _, t := range c.tables {
		if t.Name() == name && t.Version() == version {
			return t
		}
	}
	return nil
}

func (c *simCatalog) FindLatest(name string) ion.SharedSymbolTable {
	if c.yield != nil {
		c.yield("cat.FindLatest")
	}
	c.Lookups++
	var best ion.SharedSymbolTable
	for _, t := range c.tables {
		if t.Name() == name && (best == nil || t.Version() > best.Version()) {
			best = t
		}
	}
	return best
}

// SharedTables builds ion-go shared symbol tables from model tables.
func SharedTables(ts []model.Shared) []ion.SharedSymbolTable {
	var out []ion.SharedSymbolTable
	for _, t := range ts {
		out = append(out, ion.NewSharedSymbolTable(t.Name, t.Version, append([]string(nil), t.Symbols...)))
	}
	return out
}

// BuildCatalog returns nil for a nil model catalog, ion.NewCatalog(...) by default, or the simulated catalog.
func BuildCatalog(c *model.Catalog, simulated bool, yield func(string)) ion.Catalog {
	if c == nil {
		return nil
	}
	ssts := SharedTables(c.Tables)
	if simulated || yield != nil {
		return &simCatalog{tables: ssts, yield: yield}
	}
	return ion.NewCatalog(ssts...)
}

// WOp is one Writer call.
type WOp struct {
	Op   string       `json:"op"`
	Sym  *model.Sym   `json:"sym,omitempty"`  // field, annot, symbol
	Syms []model.Sym  `json:"syms,omitempty"` // annots
	V    *model.Value `json:"v,omitempty"`    // scalar payload
	T    model.Kind   `json:"t,omitempty"`    // nulltype
	Str  string       `json:"str,omitempty"`  // symstr
	// Tok: how a symbol token is built: "" text only (SID unknown), "sid" SID only (no text), "both" text and SID,
	// "none" neither text nor SID.
	Tok string `json:"tok,omitempty"`
}

// WriterCfg selects one of the writer configurations.
type WriterCfg struct {
	Kind   string         `json:"kind"` // text | pretty | binary | binary-lst
	Shared []model.Shared `json:"shared,omitempty"`
	// LST: for binary-lst, the fixed local symbol table: imports Shared plus these symbols.
	LSTSymbols []string `json:"lst_symbols,omitempty"`
	Quiet      bool     `json:"quiet,omitempty"` // TextWriterQuietFinish
}

func NewWriter(cfg WriterCfg, sink *sim.Sink) ion.Writer {
	ssts := SharedTables(cfg.Shared)
	switch cfg.Kind {
	case "text":
		opts := ion.TextWriterOpts(0)
		if cfg.Quiet {
			opts |= ion.TextWriterQuietFinish
		}
		return ion.NewTextWriterOpts(sink, opts, ssts...)
	case "pretty":
		opts := ion.TextWriterPretty
		if cfg.Quiet {
			opts |= ion.TextWriterQuietFinish
		}
		return ion.NewTextWriterOpts(sink, opts, ssts...)
	case "binary":
		return ion.NewBinaryWriter(sink, ssts...)
	case "binary-lst":
		return ion.NewBinaryWriterLST(sink, ion.NewLocalSymbolTable(ssts, append([]string(nil), cfg.LSTSymbols...)))
	}
	panic("unknown writer kind " + cfg.Kind)
}

func token(s *model.Sym, tok string) ion.SymbolToken {
	if s == nil {
		return ion.SymbolToken{LocalSID: ion.SymbolIDUnknown}
	}
	switch tok {
	case "none":
		return ion.SymbolToken{LocalSID: ion.SymbolIDUnknown}
	case "sid":
		return ion.SymbolToken{LocalSID: s.SID}
	case "both":
		t := s.Text
		return ion.SymbolToken{Text: &t, LocalSID: s.SID}
	}
	if !s.HasText {
		return ion.SymbolToken{LocalSID: s.SID}
	}
	t := s.Text
	return ion.SymbolToken{Text: &t, LocalSID: ion.SymbolIDUnknown}
}

var ionTypes = map[model.Kind]ion.Type{model.Null: ion.NullType, model.Bool: ion.BoolType, model.Int: ion.IntType, model.Float: ion.FloatType,
	model.Decimal: ion.DecimalType, model.Timestamp: ion.TimestampType, model.Symbol: ion.SymbolType, model.String: ion.StringType,
	model.Clob: ion.ClobType, model.Blob: ion.BlobType, model.List: ion.ListType, model.Sexp: ion.SexpType, model.Struct: ion.StructType}

// IonTimestamp converts a model timestamp to an ion.Timestamp (fraction digits limited to 9).
func IonTimestamp(t *model.TS) ion.Timestamp {
	loc := time.UTC
	kind := ion.TimezoneUTC
	if t.Unknown {
		kind = ion.TimezoneUnspecified
	} else if t.Offset != 0 {
		kind = ion.TimezoneLocal
		loc = time.FixedZone("fixed", t.Offset*60)
	}
	month, day := t.Month, t.Day
	if month == 0 {
		month = 1
	}
	if day == 0 {
		day = 1
	}
	ns := 0
	if t.Prec >= model.Fraction {
		f := t.Frac
		for len(f) < 9 {
			f += "0"
		}
		for i := 0; i < 9; i++ {
			ns = ns*10 + int(f[i]-'0')
		}
	}
	tm := time.Date(t.Year, time.Month(month), day, t.Hour, t.Minute, t.Second, ns, loc)
	precs := []ion.TimestampPrecision{ion.TimestampPrecisionYear, ion.TimestampPrecisionMonth, ion.TimestampPrecisionDay,
		ion.TimestampPrecisionMinute, ion.TimestampPrecisionSecond, ion.TimestampPrecisionNanosecond}
	return ion.NewTimestampWithFractionalSeconds(tm, precs[t.Prec], kind, uint8(t.FracDigits))
}

// Apply performs one Writer call.
func Apply(w ion.Writer, op WOp) error {
	switch op.Op {
	case "field":
		return w.FieldName(token(op.Sym, op.Tok))
	case "annot":
		return w.Annotation(token(op.Sym, op.Tok))
	case "annots":
		var ts []ion.SymbolToken
		for i := range op.Syms {
			ts = append(ts, token(&op.Syms[i], op.Tok))
		}
		return w.Annotations(ts...)
	case "null":
		return w.WriteNull()
	case "nulltype":
		return w.WriteNullType(ionTypes[op.T])
	case "bool":
		return w.WriteBool(op.V.Bool)
	case "int":
		return w.WriteInt(op.V.Int.Int64())
	case "uint":
		return w.WriteUint(op.V.Int.Uint64())
	case "bigint":
		return w.WriteBigInt(new(big.Int).Set(op.V.Int))
	case "float":
		return w.WriteFloat(math.Float64frombits(op.V.Bits))
	case "decimal":
		return w.WriteDecimal(ion.NewDecimal(new(big.Int).Set(op.V.Dec.Coef), op.V.Dec.Exp, op.V.Dec.NegZero))
	case "timestamp":
		return w.WriteTimestamp(IonTimestamp(op.V.TS))
	case "symbol":
		return w.WriteSymbol(token(op.Sym, op.Tok))
	case "symstr":
		return w.WriteSymbolFromString(op.Str)
	case "string":
		return w.WriteString(op.V.Str)
	case "clob":
		return w.WriteClob(append([]byte(nil), op.V.Bytes...))
	case "blob":
		return w.WriteBlob(append([]byte(nil), op.V.Bytes...))
	case "beginlist":
		return w.BeginList()
	case "endlist":
		return w.EndList()
	case "beginsexp":
		return w.BeginSexp()
	case "endsexp":
		return w.EndSexp()
	case "beginstruct":
		return w.BeginStruct()
	case "endstruct":
		return w.EndStruct()
	case "finish":
		return w.Finish()
	case "isinstruct":
		w.IsInStruct()
		return nil
	}
	panic("unknown op " + op.Op)
}

// DocOps is the legal call sequence that writes a document (without the final Finish).
func DocOps(vals []*model.Value) []WOp {
	var ops []WOp
	var emit func(v *model.Value)
	emit = func(v *model.Value) {
		if v.Field != nil {
			f := *v.Field
			ops = append(ops, WOp{Op: "field", Sym: &f})
		}
		for i := range v.Annots {
			a := v.Annots[i]
			ops = append(ops, WOp{Op: "annot", Sym: &a})
		}
		if v.Kind == model.Null {
			ops = append(ops, WOp{Op: "null"})
			return
		}
		if v.IsNull {
			ops = append(ops, WOp{Op: "nulltype", T: v.Kind})
			return
		}
		switch v.Kind {
		case model.Bool:
			ops = append(ops, WOp{Op: "bool", V: v})
		case model.Int:
			switch {
			case v.Int.IsInt64():
				ops = append(ops, WOp{Op: "int", V: v})
			case v.Int.IsUint64():
				ops = append(ops, WOp{Op: "uint", V: v})
			default:
				ops = append(ops, WOp{Op: "bigint", V: v})
			}
		case model.Float:
			ops = append(ops, WOp{Op: "float", V: v})
		case model.Decimal:
			ops = append(ops, WOp{Op: "decimal", V: v})
		case model.Timestamp:
			ops = append(ops, WOp{Op: "timestamp", V: v})
		case model.Symbol:
			s := *v.Sym
			ops = append(ops, WOp{Op: "symbol", Sym: &s})
		case model.String:
			ops = append(ops, WOp{Op: "string", V: v})
		case model.Clob:
			ops = append(ops, WOp{Op: "clob", V: v})
		case model.Blob:
			ops = append(ops, WOp{Op: "blob", V: v})
		case model.List, model.Sexp, model.Struct:
			name := map[model.Kind]string{model.List: "list", model.Sexp: "sexp", model.Struct: "struct"}[v.Kind]
			ops = append(ops, WOp{Op: "begin" + name})
			for _, k := range v.Kids {
				emit(k)
			}
			ops = append(ops, WOp{Op: "end" + name})
		}
	}
	for _, v := range vals {
		emit(v)
	}
	return ops
}

// WOutcome is the result of a writer program.
type WOutcome struct {
	Errs    []string // per call: "" = nil
	Panic   string
	Frame   string
	PanicAt int // op index
	Sink    *sim.Sink
	// FailOp is the index of the call during which the Sink's first failing Write happened (-1: none).
	FailOp int
}

// RunWrite runs a writer program over a simulated Sink.
func RunWrite(cfg WriterCfg, ops []WOp, plan sim.WritePlan, record bool) (out *WOutcome) {
	sink := sim.NewSink(plan)
	sink.Record = record
	out = &WOutcome{Sink: sink, PanicAt: -1, FailOp: -1}
	i := 0
	defer func() {
		if p := recover(); p != nil {
			out.Panic = fmt.Sprint(p)
			out.Frame = ionFrame()
			out.PanicAt = i
		}
	}()
	w := NewWriter(cfg, sink)
	// Lob payloads are handed to the writer as adjacent windows of one buffer filled in advance (what a caller slicing
	// records out of a read buffer does): each window has spare capacity that belongs to the next one.
	var arena []byte
	for _, op := range ops {
		if (op.Op == "clob" || op.Op == "blob") && op.V != nil {
			arena = append(arena, op.V.Bytes...)
		}
	}
	arena = append(arena, make([]byte, 32)...)
	off := 0
	learned := map[string]int64{}
	for i = 0; i < len(ops); i++ {
		var err error
		if (ops[i].Op == "clob" || ops[i].Op == "blob") && ops[i].V != nil {
			n := len(ops[i].V.Bytes)
			win := arena[off : off+n]
			off += n
			if ops[i].Op == "clob" {
				err = w.WriteClob(win)
			} else {
				err = w.WriteBlob(win)
			}
		} else {
			op := ops[i]
			if op.Tok == "learned" && op.Sym != nil {
				// the token a caller would have read back from the bytes emitted so far: same text, plus the local ID that text
				// has in the symbol context at the end of those bytes
				x := *op.Sym
				op.Tok = ""
				if id, ok := learned[x.Text]; ok {
					x.SID = id
					op.Tok = "both"
				}
				op.Sym = &x
			}
			err = Apply(w, op)
			if op.Op == "finish" && err == nil && (cfg.Kind == "binary" || cfg.Kind == "binary-lst") {
				learned = learnSIDs(sink.Accepted, cfg)
			}
		}
		if out.FailOp < 0 && sink.FirstFailCall >= 0 {
			out.FailOp = i
		}
		if err != nil {
			out.Errs = append(out.Errs, err.Error())
		} else {
			out.Errs = append(out.Errs, "")
		}
	}
	return out
}

// learnSIDs decodes what a binary Writer has emitted so far with the reference decoder and returns, for every text of the
// symbol context in force at the end, its lowest local ID (the ID a Reader over those bytes would report for it).
func learnSIDs(emitted []byte, cfg WriterCfg) map[string]int64 {
	out := map[string]int64{}
	res, e := ref.DecodeBinary(emitted, ref.Options{Catalog: &model.Catalog{Tables: cfg.Shared}, KeepContexts: true})
	if e != nil || res == nil || len(res.Contexts) == 0 {
		return out
	}
	ctx := res.Contexts[len(res.Contexts)-1]
	id := int64(0)
	for _, sl := range ctx {
		n := sl.Run
		if n < 1 {
			n = 1
		}
		if sl.Known {
			if _, dup := out[sl.Text]; !dup {
				out[sl.Text] = id + 1
			}
		}
		id += n
	}
	return out
}

// Package ref holds independent, specification-derived decoders for Ion 1.0 binary and text.
// They share no code with ion-go and never import it. They return model values or a classified error.
package ref

import (
	"fmt"

	"ionsim/model"
)

// Error is a classified decoding failure.
// Unsure=false means the input certainly violates the named rule of the Ion 1.0 specification.
// Unsure=true means the decoder does not implement or is not certain of the corner (never used as
// an oracle verdict).
type Error struct {
	Rule   string // short rule identifier, e.g. "bin.length-overruns-container"
	Pos    int    // byte offset the rule was violated at
	In     int    // binary: offset of the innermost value being decoded when it was violated (0 = not recorded)
	Unsure bool
	Detail string
}

func (e *Error) Error() string {
	cls := "INVALID"
	if e.Unsure {
		cls = "UNSURE"
	}
	return fmt.Sprintf("%s(%s)@%d %s", cls, e.Rule, e.Pos, e.Detail)
}

// Result of decoding a stream.
type Result struct {
	// Values are the user values (local symbol tables and version markers consumed), symbols resolved
	// against the context in force at each value.
	Values []*model.Value
	// MaxIDs[i] is the context's MaxID after Values[i] was read (binary: what Reader.SymbolTable().MaxID() should be).
	MaxIDs []int64
	// Contexts[i] is a copy of the symbol slots in force at Values[i] (only when Options.KeepContexts).
	Contexts [][]model.Slot
}

type Options struct {
	Catalog      *model.Catalog
	KeepContexts bool
}

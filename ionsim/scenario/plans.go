package scenario

import (
	"ionsim/drive"
	"ionsim/gen"
	"ionsim/model"
	"ionsim/prng"
	"ionsim/render"
	"ionsim/sim"
)

// cutsToPlan converts sorted cut offsets into a delivery plan.
func cutsToPlan(name string, cuts []int, n int) sim.ReadPlan {
	p := sim.ReadPlan{Name: name}
	prev := 0
	for _, c := range cuts {
		if c <= prev || c >= n {
			continue
		}
		p.Steps = append(p.Steps, c-prev)
		prev = c
	}
	return p
}

func planWhole() sim.ReadPlan { return sim.ReadPlan{Name: "whole"} }
func planBytes() sim.ReadPlan { return sim.ReadPlan{Name: "byte-at-a-time", Tail: 1} }
func planSplit(k int) sim.ReadPlan {
	return sim.ReadPlan{Name: "split", Steps: []int{k}}
}

// planRandom: random chunk sizes in 1..m, optionally with empty reads sprinkled in.
func planRandom(r *prng.Rand, n int, empties bool) sim.ReadPlan {
	m := []int{2, 3, 5, 8, 17, 64}[r.Intn(6)]
	p := sim.ReadPlan{Name: "random", Tail: m}
	sum := 0
	for sum < n && len(p.Steps) < 4096 {
		if empties && r.Chance(1, 6) {
			p.Steps = append(p.Steps, 0)
			continue
		}
		c := r.Range(1, m)
		p.Steps = append(p.Steps, c)
		sum += c
	}
	p.EOFWithLast = r.Bool()
	return p
}

// interesting returns offsets k such that a chunk boundary before byte k falls inside a lookahead window.
func interesting(data []byte, marks []render.Mark) []int {
	var out []int
	for k := 1; k < len(data); k++ {
		a, b := data[k-1], data[k]
		hit := false
		switch {
		case k < 4:
			hit = true
		case a == '\r':
			hit = true
		case a == '\'' && b == '\'', a == ':' && b == ':', a == '{' && b == '{', a == '}' && b == '}':
			hit = true
		case a == '/' && (b == '/' || b == '*'), a == '*' && b == '/':
			hit = true
		case (a == '+' || a == '-') && (b == 'i' || (b >= '0' && b <= '9')):
			hit = true
		case a == 'i' && b == 'n', a == 'n' && b == 'f':
			hit = true
		case a == '\\':
			hit = true
		case a == '0' && (b == 'x' || b == 'b' || b == 'X' || b == 'B'):
			hit = true
		case a == 'n' && b == 'u', a == 'l' && b == '.', a == '.':
			hit = true
		}
		if !hit && k < len(marks) {
			switch marks[k].Role {
			case render.RLen, render.RAnnotLen, render.RAnnotID, render.RFieldID:
				hit = true
			}
			if marks[k-1].Role == render.RAnnotID || marks[k-1].Role == render.RTag {
				hit = true
			}
		}
		if hit {
			out = append(out, k)
		}
	}
	return out
}

func planBiased(r *prng.Rand, data []byte, marks []render.Mark) sim.ReadPlan {
	cand := interesting(data, marks)
	if len(cand) == 0 {
		return planRandom(r, len(data), false)
	}
	n := r.Range(1, 6)
	set := map[int]bool{}
	for i := 0; i < n; i++ {
		set[cand[r.Intn(len(cand))]] = true
	}
	var cuts []int
	for k := 1; k < len(data); k++ {
		if set[k] {
			cuts = append(cuts, k)
		}
	}
	p := cutsToPlan("boundary-biased", cuts, len(data))
	p.EOFWithLast = r.Bool()
	return p
}

// navProgram draws a navigation program.
func navProgram(r *prng.Rand) drive.Program {
	n := r.Range(1, 40)
	p := drive.Program{Kind: "nav"}
	refuseRate := []int{0, 0, 8, 3}[r.Intn(4)]
	skipBias := r.Intn(3)
	for i := 0; i < n; i++ {
		d := drive.Decision{}
		switch skipBias {
		case 0:
			d.Act = r.Intn(3)
		case 1:
			d.Act = []int{1, 1, 0, 2}[r.Intn(4)]
		default:
			d.Act = []int{2, 2, 0, 1}[r.Intn(4)]
		}
		d.K = r.Intn(4)
		if refuseRate > 0 && r.Chance(1, refuseRate) {
			d.Refused = 1 << uint(r.Intn(6))
			if r.Chance(1, 4) {
				d.Refused |= 1 << uint(r.Intn(6))
			}
		}
		p.Decisions = append(p.Decisions, d)
	}
	return p
}

// Doc is a generated document with its rendering.
type Doc struct {
	Values []*model.Value
	Format string // text | binary
	Out    *render.Out
}

// genDoc draws a valid document in the given format.
func genDoc(r *prng.Rand, formatText bool, maxTop int) Doc {
	return genDocBig(r, formatText, maxTop, false)
}

// genDocBig is genDoc that, when big is set, sometimes includes a lob well beyond 64 KiB (only scenarios whose cost
// per document does not grow with the square of its length ask for it).
func genDocBig(r *prng.Rand, formatText bool, maxTop int, big bool) Doc {
	o := gen.Swarm(r)
	vals := gen.Sanitize(gen.Doc(r, o, maxTop))
	if big && r.Chance(1, 40) {
		// a lob well beyond 64 KiB inside nested containers, with values after it at every level (long skips)
		n := []int{65536, 65537, 70000, 131073, 200000}[r.Intn(5)]
		b := make([]byte, n)
		for i := range b {
			b[i] = byte(i*7 + n)
		}
		kind := []model.Kind{model.Blob, model.Clob}[r.Intn(2)]
		if kind == model.Clob {
			for i := range b {
				b[i] = 'a' + b[i]%26
			}
		}
		inner := model.NewSeq(model.List, model.NewInt(1), model.NewLob(kind, b), model.NewInt(2))
		outer := model.NewSeq(model.Sexp, inner, model.NewInt(3), model.NewSeq(model.List, model.NewString("after")))
		at := r.Intn(len(vals) + 1)
		vals = append(vals[:at], append([]*model.Value{outer}, vals[at:]...)...)
	}
	if len(vals) > 0 && r.Chance(1, 16) {
		// one value buried 30..70 containers deep (per-level reader state beyond 32 and 64 levels)
		k := r.Intn(len(vals))
		v := vals[k]
		for d := r.Range(30, 70); d > 0; d-- {
			kind := []model.Kind{model.List, model.Sexp, model.Struct}[r.Intn(3)]
			if kind == model.Struct {
				v.Field = &model.Sym{Text: []string{"a", "b", "name"}[r.Intn(3)], HasText: true}
			} else {
				v.Field = nil
			}
			w := model.NewSeq(kind, v)
			if r.Chance(1, 3) {
				sib := model.NewInt(int64(d))
				if r.Bool() {
					// a sibling container of another kind than the one that holds the buried value
					sk := []model.Kind{model.List, model.Sexp, model.Struct}[r.Intn(3)]
					sib = model.NewSeq(sk, model.NewInt(int64(d)))
					if sk == model.Struct {
						sib.Kids[0].Field = &model.Sym{Text: "q", HasText: true}
					}
				}
				if kind == model.Struct {
					sib.Field = &model.Sym{Text: "z", HasText: true}
				}
				if r.Bool() {
					w.Kids = append(w.Kids, sib)
				} else {
					w.Kids = append([]*model.Value{sib}, w.Kids...)
				}
			}
			v = w
		}
		v.Field = nil
		vals[k] = v
	}
	if formatText {
		return Doc{Values: vals, Format: "text", Out: render.Text(render.Values(vals), render.SwarmText(r.Fork()))}
	}
	return Doc{Values: vals, Format: "binary", Out: render.Binary(render.Values(vals), render.SwarmBin(r.Fork()))}
}

package scenario

import (
	"encoding/json"
	"fmt"
	"strings"

	"ionsim/drive"
	"ionsim/prng"
	"ionsim/ref"
	"ionsim/render"
	"ionsim/sim"
)

// torn decides C07: malformed input ends in an error, and the error is permanent.
type torn struct{}

func init() { Register(torn{}) }

func (torn) Property() string { return "C07" }
func (torn) Name() string     { return "torn" }
func (torn) Level() string    { return "fault_enumeration" }
func (torn) Indices(tier string) int {
	if tier == "thorough" {
		return 250000
	}
	return 16000
}
func (torn) Rule() string {
	return "Per run index: one seeded valid document (text or binary, independent renderer). Enumerated on it: (1) truncation at every " +
		"byte offset (the torn tail of a crashed producer), classified certainly-invalid from the renderer's byte map (cut inside a " +
		"container, quoted string, long string, lob, block comment, after '::', inside a top-level binary value) AND confirmed INVALID " +
		"by the independent reference decoder; (2) a catalogue of stored-medium / malformed-producer edits applied at every applicable " +
		"site found through the byte map (binary: overrunning lengths, bool/float length codes, negative zero, impossible calendar " +
		"fields, empty or mismatched annotation wrappers, wrapper around NOP, reserved type code, non-UTF-8 string bytes, IDs above the " +
		"table maximum, empty ordered struct; text: dangling annotation / field name, unterminated string / symbol / comment / " +
		"container / lob, illegal escape, \\u in clob, newline in string, misplaced / missing / doubled commas, bad digit grouping and " +
		"leading zeros, impossible timestamp fields, non-UTF-8 bytes, keyword as field name or annotation, operator outside sexp), each " +
		"kept only if the reference decoder confirms INVALID (an edit it does not reject is discarded and counted). Every certainly-" +
		"invalid stream is traversed completely (enter every container, read every scalar) under whole and byte-at-a-time delivery. " +
		"Distinct by hash of the damaged bytes and delivery plan; every evaluated case is non-trivial (a damaged stream)."
}
func (torn) Assumptions() []string {
	return []string{
		"a stream is claimed certainly invalid only when the renderer's byte map (for truncation) or the edit's intent (catalogue) AND the independent reference decoder (ref/bin, ref/text, INVALID with Unsure=false) agree",
		"the lenient reading of 'finishes with a non-nil Err': Err() or an error returned by StepIn/StepOut/a matching accessor",
		"a panic during the traversal is also reported here (no error was returned), besides being a C06 matter",
	}
}
func (torn) Components() map[string]string {
	return map[string]string{
		"ion package (Reader, tokenizer, bitstream, timestamp parsing)": "real code from /repo working tree",
		"io.Reader under the Reader":                                    "stub: sim.Source (whole and byte-at-a-time delivery)",
		"invalidity verdict":                                            "ionsim: renderer byte map + ref decoders (no ion-go code)",
	}
}

type tornCase struct {
	Data []byte       `json:"data"`
	Plan sim.ReadPlan `json:"plan"`
	Edit string       `json:"edit"` // which catalogue entry produced the damage
	Rule string       `json:"rule"` // the reference decoder's verdict
}

// edit is a replacement of data[At:At+Del] by Ins.
type edit struct {
	Kind string
	At   int
	Del  int
	Ins  []byte
}

func applyEdit(data []byte, e edit) []byte {
	return sim.ApplyMedium(data, sim.MediumFault{Kind: "replace", At: e.At, Len: e.Del, Data: e.Ins})
}

// truncClass classifies a cut of a text rendering at k (bytes [0,k) kept): "" = no claim.
func truncClassText(o *render.Out, k int) string {
	if k <= 0 || k >= len(o.Bytes) {
		return ""
	}
	m := o.Map[k]
	if m.Depth > 0 {
		return "truncate-inside-container"
	}
	if m.Cont {
		switch m.Role {
		case render.RQuoted:
			return "truncate-inside-quoted"
		case render.RLong:
			// kept part of the segment: find its start
			st := k
			for st > 0 && o.Map[st].Cont && o.Map[st].Role == render.RLong {
				st--
			}
			if k-st == 2 {
				return "" // '' is a complete (empty) quoted symbol
			}
			return "truncate-inside-long-string"
		case render.RBlockComment:
			return "truncate-inside-block-comment"
		case render.RLob:
			return "truncate-inside-lob"
		case render.RAnnotSep:
			return "truncate-inside-double-colon"
		}
		return ""
	}
	// cut at a token boundary: dangling annotation if the last significant token is '::'
	for j := k - 1; j >= 0; j-- {
		switch o.Map[j].Role {
		case render.RWS, render.RLineComment, render.RBlockComment:
			continue
		case render.RAnnotSep:
			if o.Map[j].Depth == 0 {
				return "truncate-after-double-colon"
			}
			return ""
		default:
			return ""
		}
	}
	return ""
}

func truncClassBin(o *render.Out, k int) string {
	if k <= 0 || k >= len(o.Bytes) {
		return ""
	}
	if o.Map[k].Top {
		return "" // cut between top-level items: still a valid stream
	}
	if k < 4 {
		return "truncate-inside-version-marker"
	}
	if o.Map[k].Depth > 0 {
		return "truncate-inside-container"
	}
	return "truncate-inside-top-level-value"
}

func vuMax(n int) []byte {
	b := make([]byte, n)
	for i := range b {
		b[i] = 0x7f
	}
	b[n-1] = 0xff
	return b
}

// binEdits is the binary corruption catalogue.
func binEdits(o *render.Out, r *prng.Rand) []edit {
	var out []edit
	d := o.Bytes
	for si, s := range o.Sites {
		switch s.Kind {
		case "tag":
			t, l := byte(s.Aux>>8), byte(s.Aux&0xff)
			b := d[s.Off]
			switch t {
			case 1: // bool
				if l != 15 {
					out = append(out, edit{"bool-bad-length", s.Off, 1, []byte{b&0xf0 | byte(2+r.Intn(12))}})
				}
			case 4: // float
				if l == 4 || l == 8 {
					out = append(out, edit{"float-bad-length", s.Off, 1, []byte{b&0xf0 | []byte{1, 2, 3, 5, 6, 7, 9, 10}[r.Intn(8)]}})
				}
			}
			if l < 13 && t >= 2 && t != 4 && t != 14 && t != 1 {
				// raise an inline length: the value overruns its container or the input, or swallows its neighbour
				nl := l + 1 + byte(r.Intn(int(13-l)))
				if !(t == 13 && nl == 1) {
					out = append(out, edit{"length-raised", s.Off, 1, []byte{b&0xf0 | nl}})
				}
			}
			if t != 14 && r.Chance(1, 3) {
				out = append(out, edit{"reserved-type-code", s.Off, 1, []byte{0xf0 | b&0x0f}})
			}
		case "len":
			last := s.Off + s.Len - 1
			v := d[last] & 0x7f
			if v < 0x70 {
				out = append(out, edit{"varuint-length-raised", last, 1, []byte{0x80 | (v + 1 + byte(r.Intn(10)))}})
			}
			out = append(out, edit{"varuint-length-huge", s.Off, s.Len, vuMax(s.Len)})
		case "int-mag":
			if s.Aux == 3 && s.Len > 0 {
				out = append(out, edit{"negative-zero-int", s.Off, s.Len, make([]byte, s.Len)})
			}
		case "ts-field":
			if s.Aux == 7 && s.Len == 1 && si+1 < len(o.Sites) {
				// fractional seconds that are not below one: exactly 1 (1d0, 10d-1, 100d-2 ...) and well above
				if c := o.Sites[si+1]; c.Kind == "ts-field" && c.Aux == 8 && c.Off == s.Off+1 && c.Len >= 1 {
					one := make([]byte, c.Len)
					one[c.Len-1] = 1
					out = append(out, edit{"timestamp-fraction-equals-one", s.Off, 1 + c.Len, append([]byte{0x80}, one...)})
					ten := make([]byte, c.Len)
					ten[c.Len-1] = 10
					out = append(out, edit{"timestamp-fraction-equals-one", s.Off, 1 + c.Len, append([]byte{0xc1}, ten...)})
					big := make([]byte, c.Len)
					big[0] = 0x7f
					out = append(out, edit{"timestamp-fraction-above-one", s.Off, 1 + c.Len, append([]byte{0xc1}, big...)})
				}
			}
			if s.Len != 1 {
				continue
			}
			bad := map[int64][]byte{2: {0x80, 0x8d}, 3: {0x80, 0xa0}, 4: {0x98}, 5: {0xbc}, 6: {0xbc}}[s.Aux]
			for _, v := range bad {
				out = append(out, edit{fmt.Sprintf("timestamp-field-%d-impossible", s.Aux), s.Off, 1, []byte{v}})
			}
		case "annot-len":
			if s.Len == 1 {
				out = append(out, edit{"annotation-wrapper-zero-annotations", s.Off, 1, []byte{0x80}})
				out = append(out, edit{"annotation-length-raised", s.Off, 1, []byte{0x80 | (d[s.Off]&0x7f + 1 + byte(r.Intn(5)))}})
			}
		case "annot-wrapped":
			// the wrapped value's own length no longer matches the wrapper / wrapper around a NOP pad
			b := d[s.Off]
			if b&0x0f < 14 && b>>4 != 1 {
				out = append(out, edit{"annotation-wraps-nop", s.Off, 1, []byte{b & 0x0f}})
				if b&0x0f > 0 && b>>4 >= 2 && b>>4 != 4 {
					out = append(out, edit{"annotation-wrapped-length-mismatch", s.Off, 1, []byte{b - 1}})
				}
			}
		case "string-payload":
			if s.Len > 0 {
				out = append(out, edit{"string-invalid-utf8", s.Off + r.Intn(s.Len), 1, []byte{[]byte{0xff, 0xc0, 0xfe, 0x80}[r.Intn(4)]}})
			}
		case "symid":
			if s.Len > 0 && s.Len <= 7 {
				bb := make([]byte, s.Len)
				for i := range bb {
					bb[i] = 0x7f
				}
				out = append(out, edit{"symbol-id-above-maximum", s.Off, s.Len, bb})
			}
		case "fieldid":
			if s.Aux >= 0 {
				out = append(out, edit{"field-id-above-maximum", s.Off, s.Len, vuMax(s.Len + 1)})
			}
		case "annot-id":
			out = append(out, edit{"annotation-id-above-maximum", s.Off, s.Len, vuMax(s.Len)})
		case "top":
			// an empty ordered struct (L=1, length 0) replacing a top-level empty struct
			if s.Len == 1 && d[s.Off] == 0xd0 {
				out = append(out, edit{"ordered-struct-empty", s.Off, 1, []byte{0xd1, 0x80}})
			}
		}
	}
	return out
}

// textEdits is the malformed-producer catalogue for text.
func textEdits(o *render.Out, r *prng.Rand) []edit {
	var out []edit
	d := o.Bytes
	ins := func(kind string, at int, s string) { out = append(out, edit{kind, at, 0, []byte(s)}) }
	del := func(kind string, at, n int) { out = append(out, edit{kind, at, n, nil}) }
	for _, s := range o.Sites {
		end := s.Off + s.Len
		switch s.Kind {
		case "close":
			ins("dangling-annotation-before-closer", s.Off, " a::")
			del("unterminated-container", s.Off, 1)
			if d[s.Off] == '}' {
				ins("dangling-field-name", s.Off, ",f:")
			}
			// closer of the wrong kind
			wrong := map[byte]byte{']': ')', ')': '}', '}': ']'}[d[s.Off]]
			out = append(out, edit{"mismatched-closer", s.Off, 1, []byte{wrong}})
		case "comma":
			ins("doubled-comma", s.Off, ",")
			del("missing-comma", s.Off, 1)
			ins("dangling-annotation-before-comma", s.Off, " a::")
		case "open":
			if d[s.Off] == '[' {
				ins("leading-comma", end, ",")
			}
			if d[s.Off] == '{' {
				ins("keyword-field-name", end, []string{"null", "true", "false", "nan"}[r.Intn(4)]+":1,")
			}
		case "string":
			if s.Len >= 2 {
				del("unterminated-string", end-1, 1)
				ins("illegal-escape", s.Off+1, []string{`\q`, `\xZ1`, `\u12G4`, `\U00110000`, `\1`}[r.Intn(5)])
				ins("hex-escape-with-sign", s.Off+1, []string{`\x+4`, `\x-1`, `\u+041`, `\u-001`, `\U+0000041`, `\U-0000041`}[r.Intn(6)])
				ins("escape-beyond-unicode", s.Off+1, []string{`\U00110000`, `\UFFFFFFFF`, `\U80000000`, `\U7FFFFFFF`, `\Uffff0041`, `\U0011FFFF`, `\UF0000000`}[r.Intn(7)])
				if s.Aux == 0 {
					ins("newline-in-string", s.Off+1, "\n")
				}
				ins("non-utf8-in-string", s.Off+1, string([]byte{[]byte{0xff, 0xc0, 0xf8, 0x80}[r.Intn(4)]}))
			}
		case "long-seg":
			if s.Len >= 6 {
				del("unterminated-long-string", end-3, 3)
				ins("illegal-escape-in-long-string", s.Off+3, []string{`\q`, `\UFFFFFFFF`, `\U80000041`, `\x4`}[r.Intn(4)]+" ")
			}
		case "qsymbol":
			if s.Len >= 2 {
				del("unterminated-quoted-symbol", end-1, 1)
				ins("newline-in-quoted-symbol", s.Off+1, "\n")
				ins("illegal-escape-in-quoted-symbol", s.Off+1, []string{`\q`, `\UFFFFFFFF`, `\U90000000`, `\U00110000`, `\u12G4`}[r.Intn(5)])
			}
		case "block-comment":
			del("unterminated-block-comment", end-2, 2)
		case "blob":
			del("unterminated-lob", end-2, 2)
			del("lob-single-closing-brace", end-1, 1)
			ins("bad-base64", s.Off+2, "!")
		case "clob-short":
			del("unterminated-lob", end-2, 2)
			if i := strings.IndexByte(string(d[s.Off:end]), '"'); i >= 0 {
				ins("unicode-escape-in-clob", s.Off+i+1, "\\"+"u0041")
				ins("non-ascii-in-clob", s.Off+i+1, "é")
			}
		case "clob-long":
			del("unterminated-lob", end-2, 2)
			if i := strings.Index(string(d[s.Off:end]), "'''"); i >= 0 {
				ins("unicode-escape-in-clob", s.Off+i+3, `\U00000041`)
			}
		case "number":
			tok := string(d[s.Off:end])
			// an exponent marker and sign with no digits after them
			if s.Aux != 10 || !strings.ContainsAny(tok, "xXbB") {
				ins("exponent-sign-without-digits", end, []string{"d+", "d-", "D+", "e+", "e-", "E-"}[r.Intn(6)])
			}
			// a numeric token must be followed by a stop character; a lone operator character or a letter is not one
			ins("number-followed-by-non-stop-character", end, []string{"/x", "/1", "a", "$", "_x", "#"}[r.Intn(6)])
			// digit grouping around the first digit, the decimal point and the exponent marker (ints, floats, decimals)
			if body := strings.TrimPrefix(tok, "-"); len(body) > 0 && body[0] >= '0' && body[0] <= '9' &&
				!strings.HasPrefix(body, "0x") && !strings.HasPrefix(body, "0X") && !strings.HasPrefix(body, "0b") && !strings.HasPrefix(body, "0B") {
				first := s.Off + len(tok) - len(body)
				if body[0] != '0' || len(body) == 1 || body[1] < '0' || body[1] > '9' {
					ins("leading-zero-then-underscore", first, "0_")
				}
				if i := strings.IndexByte(body, '.'); i > 0 {
					ins("underscore-before-decimal-point", first+i, "_")
					if i+1 < len(body) && body[i+1] >= '0' && body[i+1] <= '9' {
						ins("underscore-after-decimal-point", first+i+1, "_")
					}
				}
				if i := strings.IndexAny(body, "eEdD"); i > 0 {
					ins("underscore-before-exponent-marker", first+i, "_")
					ins("underscore-after-exponent-marker", first+i+1, "_")
				}
			}
			switch s.Aux {
			case 10:
				digits := strings.TrimPrefix(tok, "-")
				if len(digits) > 0 && digits[0] >= '1' && digits[0] <= '9' {
					ins("leading-zero", s.Off+len(tok)-len(digits), "0")
				}
				ins("trailing-underscore", end, "_")
				if len(digits) > 1 && !strings.HasPrefix(digits, "0") {
					ins("doubled-underscore", s.Off+len(tok)-len(digits)+1, "__")
				}
				if strings.HasPrefix(digits, "0x") || strings.HasPrefix(digits, "0X") || strings.HasPrefix(digits, "0b") || strings.HasPrefix(digits, "0B") {
					ins("underscore-after-radix-prefix", s.Off+len(tok)-len(digits)+2, "_")
				}
			case 12:
				if !strings.HasPrefix(strings.TrimPrefix(tok, "-"), "0") {
					ins("leading-zero", s.Off+len(tok)-len(strings.TrimPrefix(tok, "-")), "0")
				}
			}
		case "timestamp":
			tok := string(d[s.Off:end])
			ins("timestamp-followed-by-non-stop-character", end, []string{"/x", "/1", "/", "a", "5", "+", "-1", "#"}[r.Intn(8)])
			set := func(kind string, pos int, repl string) {
				if pos+len(repl) <= len(tok) {
					out = append(out, edit{kind, s.Off + pos, len(repl), []byte(repl)})
				}
			}
			if s.Aux >= 1 {
				set("timestamp-month-13", 5, "13")
				set("timestamp-month-00", 5, "00")
			}
			if s.Aux >= 2 {
				set("timestamp-day-32", 8, "32")
				set("timestamp-feb-30", 5, "02-30")
				set("timestamp-day-00", 8, "00")
			}
			if s.Aux >= 3 {
				set("timestamp-hour-24", 11, "24")
				set("timestamp-minute-60", 14, "60")
				if strings.HasSuffix(tok, "Z") {
					out = append(out, edit{"timestamp-offset-24h", end - 1, 1, []byte("+24:00")})
					out = append(out, edit{"timestamp-missing-offset", end - 1, 1, nil})
				}
			}
			if s.Aux >= 4 {
				set("timestamp-second-60", 17, "60")
			}
			set("timestamp-year-0000", 0, "0000")
		case "annot-sep":
			ins("keyword-annotation", s.Off+2, []string{"null", "true", "false", "nan"}[r.Intn(4)]+"::")
		case "top-ws":
			ins("comma-at-top-level", s.Off, ",")
			ins("operator-outside-sexp", s.Off, " * ")
		case "value":
			if s.Depth > 0 && r.Chance(1, 4) {
				ins("dangling-annotation-in-container", end, " b::")
			}
		}
	}
	// commas inside s-expressions
	for _, s := range o.Sites {
		if s.Kind == "open" && o.Bytes[s.Off] == '(' {
			ins("comma-in-sexp", s.Off+1, " , ")
		}
	}
	return out
}

func (s torn) Run(c *Ctx, i int) {
	r := prng.New(prng.Mix(c.Seed, 7, uint64(i)))
	doc := genDoc(r, i%2 == 0, 5)
	data := doc.Out.Bytes
	isText := doc.Format == "text"
	c.Count("docs."+doc.Format, 1)
	if i < 3 {
		c.Sample(map[string]interface{}{"index": i, "format": doc.Format, "bytes_hex": fmt.Sprintf("%x", data), "text": textOrEmpty(doc.Format, data)})
	}
	classify := func(b []byte) *ref.Error {
		if isText {
			_, e := ref.DecodeText(b, ref.Options{})
			if e != nil && !e.Unsure && operatorCommentAmbiguity(b) {
				// an operator character immediately followed by // or /*: whether that starts a comment or
				// continues the operator is a tokenizer corner I do not claim a verdict on
				return &ref.Error{Rule: "text.operator-comment-ambiguity", Unsure: true}
			}
			return e
		}
		_, e := ref.DecodeBinary(b, ref.Options{})
		return e
	}
	// sanity: the undamaged rendering must be valid for the reference decoder, else this document is not used
	if e := classify(data); e != nil {
		if e.Unsure {
			c.Count("docs.reference-unsure-on-valid(skipped)", 1)
		} else {
			c.Count("docs.REFERENCE-REJECTS-VALID(harness disagreement, skipped)", 1)
		}
		return
	}
	// (1) truncation at every byte offset (documents above 1500 bytes: 600 sampled offsets — every cut costs a
	// traversal of the whole prefix, twice, so the exhaustive form grows with the square of the length)
	take := map[int]bool{}
	if len(data) > 1500 {
		tr := r.Fork()
		for j := 0; j < 560; j++ {
			take[1+tr.Intn(len(data)-1)] = true
		}
		for _, k := range interesting(data, doc.Out.Map) {
			if len(take) < 600 {
				take[k] = true
			}
		}
		for _, k := range []int{1, 2, 3, 4, 5, len(data) - 2, len(data) - 1, 4095, 4096, 4097} {
			take[k] = true
		}
		c.Count("docs.large(truncation offsets sampled)", 1)
	}
	for k := 1; k < len(data); k++ {
		if len(take) > 0 && !take[k] {
			continue
		}
		var cls string
		if isText {
			cls = truncClassText(doc.Out, k)
		} else {
			cls = truncClassBin(doc.Out, k)
		}
		if cls == "" {
			c.Count("truncate.no-claim(unsure cut)", 1)
			continue
		}
		cut := data[:k]
		e := classify(cut)
		if e == nil || e.Unsure {
			c.Count("truncate.byte-map-and-reference-disagree(discarded)", 1)
			continue
		}
		s.runBoth(c, cut, cls, e.Rule)
	}
	// (2) catalogue
	var edits []edit
	if isText {
		edits = textEdits(doc.Out, r.Fork())
	} else {
		edits = binEdits(doc.Out, r.Fork())
	}
	if !isText {
		// correctly framed values that are malformed in themselves, appended to the document (the byte-level catalogue
		// cannot make them: they need more bytes than the field they would replace)
		ar := r.Fork()
		for j := 0; j < 6; j++ {
			atom, kind := framedInvalidAtom(ar)
			b := append(append([]byte{}, data...), atom...)
			if e := classify(b); e != nil && !e.Unsure {
				s.runBoth(c, b, kind, e.Rule)
			} else {
				c.Count("catalogue.framed-atom-not-judged(discarded)", 1)
			}
		}
	}
	if len(edits) > 400 && len(data) > 1500 {
		// a long document with thousands of sites: a seeded sample of 400 edits (the cost of one edit is a traversal of
		// the whole document, twice)
		er := r.Fork()
		perm := er.Perm(len(edits))
		sample := make([]edit, 0, 400)
		for _, j := range perm[:400] {
			sample = append(sample, edits[j])
		}
		edits = sample
		c.Count("docs.large(catalogue edits sampled)", 1)
	}
	for _, ed := range edits {
		b := applyEdit(data, ed)
		e := classify(b)
		if e == nil {
			c.Count("catalogue.edit-still-valid(discarded)."+ed.Kind, 1)
			continue
		}
		if e.Unsure {
			c.Count("catalogue.reference-unsure(discarded)", 1)
			continue
		}
		s.runBoth(c, b, ed.Kind, e.Rule)
	}
}

// operatorCommentAmbiguity reports an operator character immediately followed by "//" or "/*".
func operatorCommentAmbiguity(b []byte) bool {
	for i := 0; i+2 < len(b); i++ {
		if b[i+1] == '/' && (b[i+2] == '/' || b[i+2] == '*') && strings.IndexByte("!#%&*+-./;<=>?@^`|~", b[i]) >= 0 {
			return true
		}
	}
	return false
}

func (s torn) runBoth(c *Ctx, data []byte, editKind, rule string) {
	c.Count("fault."+editKindClass(editKind)+".fired", 1)
	for _, p := range []sim.ReadPlan{planWhole(), planBytes()} {
		s.exec(c, tornCase{Data: data, Plan: p, Edit: editKind, Rule: rule})
	}
}

func editKindClass(k string) string {
	if strings.HasPrefix(k, "truncate") {
		return "truncate"
	}
	return k
}

func (s torn) exec(c *Ctx, cs tornCase) {
	c.Ahead(cs)
	rc := drive.ReadCase{Data: cs.Data, Plan: cs.Plan, Prog: drive.Full}
	oc := drive.RunRead(rc)
	c.Steps += int64(oc.Reads)
	c.Count("torn.runs", 1)
	c.DistinctU(hashRead(cs.Data, oc.SrcHash, rc.Prog))
	fm := format(cs.Data)
	sigTail := fm + "/" + cs.Edit + "/" + cs.Rule
	if oc.Panic != "" {
		c.Report("C07", "C07.E", "C07.E/panic/"+fm+"/"+oc.Frame+"/"+drive.PanicClass(oc.Panic), fmt.Sprintf("certainly invalid stream (%s, %s): traversal panicked instead of returning an error: %s", cs.Edit, cs.Rule, oc.Panic), cs)
		return
	}
	if oc.Spin {
		c.Report("C07", "C07.E", "C07.E/spin/"+fm, "reader keeps calling Read after end of data", cs)
		return
	}
	if oc.Err == "" {
		if fm == "binary" {
			// malformed bytes strictly inside a value that the reader of a local symbol table ignores get their own signature
			if _, e := ref.DecodeBinary(cs.Data, ref.Options{}); e != nil && (ref.InLSTOpenContent(cs.Data, e.Pos) || (e.In > 0 && ref.InLSTOpenContent(cs.Data, e.In))) {
				sigTail = fm + "/inside-ignored-symbol-table-content"
			}
		}
		c.Report("C07", "C07.E", "C07.E/"+sigTail, fmt.Sprintf("certainly invalid stream (%s; reference decoder: %s) was traversed completely with no error; %d observations; stream=%s", cs.Edit, cs.Rule, len(oc.Lines), showOut(cs.Data, fm == "binary")), cs)
		return
	}
	if oc.StickyChecked && !oc.StickyOK {
		c.Report("C07", "C07.S", "C07.S/"+fm+"/"+errClass(oc.Err), "error is not permanent: "+oc.StickyDetail, cs)
	}
	if oc.ErrAt != "Err" && !oc.StickyChecked {
		c.Count("torn.error-from-call-not-Err()", 1)
	}
}

func (s torn) Replay(c *Ctx, caseJSON []byte) error {
	var cs tornCase
	if err := json.Unmarshal(caseJSON, &cs); err != nil {
		return err
	}
	// re-derive the verdict: a case is only judged when the reference decoder still calls it certainly invalid
	var e *ref.Error
	if format(cs.Data) == "binary" {
		_, e = ref.DecodeBinary(cs.Data, ref.Options{})
	} else {
		_, e = ref.DecodeText(cs.Data, ref.Options{})
		if operatorCommentAmbiguity(cs.Data) {
			return nil
		}
	}
	if e == nil || e.Unsure {
		return nil
	}
	cs.Rule = e.Rule
	s.exec(c, cs)
	return nil
}

func (s torn) Shrink(caseJSON []byte) [][]byte {
	var cs tornCase
	if json.Unmarshal(caseJSON, &cs) != nil {
		return nil
	}
	var out [][]byte
	if len(cs.Plan.Steps) > 0 || cs.Plan.Tail != 0 {
		x := cs
		x.Plan = planWhole()
		if b, err := json.Marshal(x); err == nil {
			out = append(out, b)
		}
	}
	for _, d := range removeSpans(cs.Data) {
		x := cs
		x.Data = d
		if b, err := json.Marshal(x); err == nil {
			out = append(out, b)
		}
	}
	return out
}

package main

import (
	"fmt"

	"ionsim/ref"
)

func refVerdict(data []byte) string {
	var e *ref.Error
	if len(data) >= 4 && data[0] == 0xe0 {
		_, e = ref.DecodeBinary(data, ref.Options{})
	} else {
		_, e = ref.DecodeText(data, ref.Options{})
	}
	if e == nil {
		return "VALID"
	}
	return fmt.Sprint(e)
}

#!/usr/bin/env python3
"""Regenerates /verif/MANIFEST.json from the table below (kept in one place so it is always valid)."""
import json, subprocess

NA = {
 "C01": "pure function of the written values and writer mode: no schedule, fault, clock or history for a simulator to control (DESIGN.md section 3)",
 "C02": "pure function of the input text: putting an input generator in front of it is property-based testing, not simulation",
 "C03": "pure function of the input bytes: same reason as C02",
 "C04": "pure function of the values written; judged by output inspection with no simulated dimension",
 "C05": "pure function of (source document, destination mode); the table history inside one input is addressed on the reading side by C10",
 "C09": "immutable in-memory value type and builder: no I/O, schedule, fault or external party (its ID-space model is the oracle of C10)",
 "C11": "pure function of (tables, value sequence); its failing-call clause is exercised inside C12's program space",
 "C13": "pure function of one number and one accessor",
 "C14": "pure arithmetic on in-memory values",
 "C15": "pure function of one timestamp value or literal",
 "C16": "pure function of one Go value; its determinism clause depends on Go map iteration order, which no seam can seed",
 "C17": "pure function of (Ion value, target type); the Decoder ordering clause is a loop with nothing to interleave",
 "C20": "pure function of input file and flags over real os.Stdin/Stdout/files in package main; no seam to simulate behind without restructuring the command",
}

# property -> (level category, level text, level note, technique, design ref)
CLAIMED = {
 "C18": ("exploration",
         "2..9 seeded caller tasks (writers \u2014 some with caller mistakes \u2014, readers and decoders of symbol-table histories and of general documents, encoders, Marshal/Unmarshal of 20 static and many dynamic Go types, table / catalog / token helpers, the owner of a symbol table builder), each with its own ion-go objects, share shared symbol tables, Adjust()ed views, slices of tables, a token list, a built local table, one catalog (often skewed), the system table and Go types. Part A: the tasks run as parked goroutines under a seeded scheduler that picks who runs next at every Source.Read / Sink.Write / catalog lookup (one pick list = one replayable interleaving; six policies); each task's output must equal its solo baseline \u2014 on one index in 16 (quick: 32) also the baseline taken in a fresh process \u2014 and a public-API digest of every shared object must be unchanged at every yield (past step 3000 of a run: at every 32nd) and at the end. Part B: the same seeded task sets run free in a -race build in 160 short-lived processes (each starting with a cold-start burst) at GOMAXPROCS 16 and 2; any race report attributable to package ion fails the check.",
         "Part A cannot see data races (a parked hand-off is a happens-before edge); part B's schedule is the Go runtime's and is not controlled, its oracle is the race detector's happens-before analysis (bounded history, can miss). Solo baselines are ion-go's own output.",
         "deterministic simulation: seeded parked-goroutine scheduler over seam-call yield points with solo-baseline (in-process and fresh-process) and shared-state-digest oracles; plus the same seeded workloads free-running under the Go race detector",
         "DESIGN.md section 3 C18 and section 7"),
 "C06": ("exploration",
         "Seeded simulation of a damaged stored stream read by an arbitrary caller: valid and hostile-producer documents, correctly framed binary values whose fields take extreme values (exponents, coefficients, offsets, IDs, max_id, length relations that wrap around 64 bits), deep nesting, hit by 0..3 stored-medium faults (bit flip, byte set, zeroed / lost / duplicated / spliced block, truncation, length / exponent / ID fields replaced by boundary values through the byte map, lengths off by a few), a per-document sweep of every nested container length plus and minus one, and every byte string of length <= 3 over a 24-byte alphabet; each driven by seeded random call sequences over all Reader methods, a traversal that reads and prints every scalar, navigating callers, Decoder.Decode to exhaustion and DecodeTo into a zoo of about 80 Go target types (prefilled ones included), under whole and chunked simulated delivery, with panic, reads-after-end, progress, allocation, worker-death (write-ahead + isolated re-run) and wall-clock watchdogs.",
         "Returned errors are always acceptable (acceptance/rejection is C07). Allocation bound: 32 MiB + 4 KiB x input length. Seam-free infinite loops are caught by a wall-clock stall watchdog (30 s) confirmed by an isolated re-run with 4x the limit; minimisation runs in a child process.",
         "deterministic simulation with fault injection: stored-medium faults on seeded documents x seeded caller programs x simulated Source delivery, isolated worker processes with write-ahead cases and resource watchdogs",
         "DESIGN.md section 3 C06 and section 7"),
 "C19": ("fault_enumeration",
         "Seeded simulation of the io.Reader/io.Writer seams: for every generated document, every two-chunk split point, byte-at-a-time and seeded chunk plans are compared with whole delivery; a read failure is injected at every byte offset (sticky/transient, with/without data, four error identities) and a write failure at every Write call of nine writer configurations (sticky/transient; nothing, a prefix or all of the data accepted; three error identities); a seekable source is one more delivery; one index in 16 adds values of 4 KiB..200 000 bytes under large-chunk plans. Exhaustive over fault positions per document up to 600 bytes / 600 write calls; the document space is sampled from VERIF_SEED.",
         "Reference outcome is ion-go's own traversal over whole delivery; Go runtime and bufio trusted; strict reading of R2 (every fired read failure, one-time ones included, must be reported).",
         "deterministic simulation with fault injection: simulated Source/Sink, per-byte read-fault and per-call write-fault enumeration, explicit replay cases",
         "DESIGN.md section 3 C19"),
 "C08": ("exploration",
         "Seeded navigation programs (skip, leave unread, step out after k children, refused calls, values read twice, a refused StepOut and one more Next after the end) are run against the real Reader over whole and chunked simulated delivery and compared observation by observation \u2014 whole symbol tokens, and the reader's answers between StepOut and the next Next included \u2014 with a reference cursor walking the tree of ion-go's own plain traversal. Documents: seeded text and binary documents (deeply nested ones, lobs beyond 64 KiB, long record streams) and symbol-table histories read with a catalog. A valid document that the plain traversal rejects but a merely skipping navigation reads cleanly is reported as navigation dependence.",
         "Reference is ion-go's own plain full traversal (the property is stated relative to it), so a value ion-go decodes wrongly but consistently is not a C08 violation.",
         "deterministic simulation: seeded caller programs as the schedule, reference-cursor model, simulated Source delivery plans",
         "DESIGN.md section 3 C08 and section 7"),
 "C07": ("fault_enumeration",
         "On every generated valid document: truncation at every byte offset (torn tail of a crashed producer) and an enumerated catalogue of stored-medium / malformed-producer corruptions at every applicable site found through the renderer's byte map; a damaged stream is judged only when byte map / edit intent and the independent reference decoder agree it is certainly invalid; it is then traversed completely under whole and byte-at-a-time simulated delivery and must end in a non-nil, permanent error. Correctly framed binary values that are malformed in themselves (timestamp fraction not below one, float of an impossible size, a day its month does not have) are appended as well. Exhaustive per document up to 1500 bytes; longer documents get 600 sampled truncation offsets and 400 sampled catalogue edits.",
         "Trusted: renderer byte maps and ref/bin, ref/text (two independent witnesses for invalidity); 'non-nil Err' is read leniently: an error returned by StepIn / StepOut / an accessor counts. One known finding (malformed bytes inside a value that the reader of a local symbol table ignores) is listed in known_findings.json with a pinned witness.",
         "deterministic simulation with fault injection: exhaustive per-document truncation and corruption catalogue on the stored medium, simulated Source delivery, independent invalidity oracle",
         "DESIGN.md section 3 C07"),
 "C10": ("exploration",
         "Seeded histories of version markers, replacing and appending local symbol tables (chains of up to 24 appends), imports (versions that sort differently as strings, colliding name/version pairs, ignored names, declared max_id absent, smaller, equal, larger, up to 2^40) and user values are rendered to binary and text, delivered under seeded delivery plans and read with catalogs in skewed states (exact, only newer, only older, missing; real ion.NewCatalog or a simulated repository); every observed symbol token, the binary reader's MaxID, the value count and the error expectation are compared with an executable symbol-context model.",
         "Trusted: the symbol-context model (model/symctx.go) and the independent renderers; corners the statement does not pin down (listed in DESIGN.md appendix A) are not generated.",
         "deterministic simulation: seeded event histories x catalog version skew (simulated external party) x delivery schedule, executable reference model",
         "DESIGN.md section 3 C10 and section 7"),
 "C12": ("exploration",
         "Seeded Writer call sequences (legal, misuse, reuse after Finish; deep, bulky, wide, length-boundary and learned-token variants) on five to seven writer configurations, fault-free twice and with one transient or sticky sink failure, checked call by call against a protocol automaton (stickiness of errors) and, when the final Finish returns nil, by independent spec-derived decoders against the automaton's value tree; plus the complete enumeration of all call sequences of length <= 4 over a 12-call alphabet on six configurations with a transient failure at every single write call. A case carries the programs the process ran just before it, so that state leaking between Writers replays.",
         "Trusted: ionsim ref/bin and ref/text decoders, the protocol automaton; documented-open program points only held to P/S/V1/D. A Writer that refuses a legal call satisfies the property as stated.",
         "deterministic simulation with fault injection: seeded call-sequence programs, executable protocol automaton as reference model, simulated Sink failures, independent decoders",
         "DESIGN.md section 3 C12 and section 7"),
}

PENDING = ["C06", "C07", "C08", "C10", "C12", "C18"]
PENDING = [p for p in PENDING if p not in CLAIMED]

checks = []
for pid in sorted(CLAIMED):
    cat, text, note, tech, ref = CLAIMED[pid]
    checks.append({
        "property_id": pid,
        "quick_cmd": "./ionsim.sh check %s quick" % pid,
        "thorough_cmd": "./ionsim.sh check %s thorough" % pid,
        "evidence_file": "evidence/%s.json" % pid,
        "replay_cmd_template": "./ionsim.sh replay {path}",
        "engine": "ionsim",
        "level_claimed": {"category": cat, "text": text, "design_ref": ref},
        "level_note": note,
        "technique": tech,
    })

try:
    fixes = subprocess.run(["git", "-C", "/repo", "log", "--format=%h %s"], capture_output=True, text=True).stdout.splitlines()
except Exception:
    fixes = []

m = {
 "version": 1,
 "setup_cmd": "./ionsim.sh build",
 "hooks": {
   "guard": "verif",
   "enable": "no hooks are needed: every seam is an existing interface (io.Reader, io.Writer, ion.Catalog); checks build /repo's working tree through a replace directive",
   "baseline_off_cmd": "python3 /verif/tools_baseline.py",
   "source_commits": [],
   "add_only": True,
 },
 "engines": [{"name": "ionsim", "path": "ionsim", "serves_properties": sorted(CLAIMED),
              "kind_free_text": "deterministic simulation with fault injection: seeded Source/Sink/Catalog/Scheduler around the real ion package, reference models, explicit replay files, structural shrinking"}],
 "checks": checks,
 "notes": "Exit 0 held / 1 VIOLATION / 2 infrastructure trouble. VERIF_SEED selects the seed (default 1). Known findings: known_findings.json. Unguarded fix: commits in /repo: " + "; ".join(f for f in fixes if " fix:" in f),
 "not_applicable": [{"property_id": k, "reason": v} for k, v in sorted(NA.items())] +
                   [{"property_id": k, "reason": "claimed in DESIGN.md; check not registered yet (being built)"} for k in PENDING],
}
json.dump(m, open("/verif/MANIFEST.json", "w"), indent=1)
print("MANIFEST.json written: %d checks, %d not_applicable" % (len(checks), len(m["not_applicable"])))

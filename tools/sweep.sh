#!/bin/bash
# Background sweep on the unchanged tree: thorough tier, several seeds. usage: tools/sweep.sh "<seeds>" "<props>"
cd "$(dirname "$0")/.." || exit 2
SEEDS=${1:-"2 3"}
PROPS=${2:-"C19 C07 C08 C10 C12 C06 C18"}
for s in $SEEDS; do for p in $PROPS; do
  echo "=== seed $s prop $p $(date +%T)"
  VERIF_SEED=$s IONSIM_NO_EVIDENCE=1 ./ionsim.sh check $p ${TIER:-thorough} 2>&1 | grep -v '^  ' | cut -c1-400
  echo "=== exit ${PIPESTATUS[0]}"
done; done

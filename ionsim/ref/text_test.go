package ref

import (
	"math"
	"math/big"
	"strings"
	"testing"

	"ionsim/model"
)

func tBig(s string) *model.Value {
	n, ok := new(big.Int).SetString(s, 10)
	if !ok {
		panic("bad big " + s)
	}
	return model.NewBig(n)
}

func tDec(coef int64, exp int32, nz bool) *model.Value {
	return model.NewDec(big.NewInt(coef), exp, nz)
}

func tSym(s string) *model.Value { return model.NewSymbol(model.T(s)) }

func tTS(prec model.Precision, y, mo, d, h, mi, s int, frac string, unknown bool, off int) *model.Value {
	return model.NewTS(model.TS{Prec: prec, Year: y, Month: mo, Day: d, Hour: h, Minute: mi, Second: s,
		Frac: frac, FracDigits: len(frac), Unknown: unknown, Offset: off})
}

type tOKCase struct {
	name string
	in   string
	want []*model.Value
}

func tRunOK(t *testing.T, cases []tOKCase) {
	t.Helper()
	for _, c := range cases {
		res, err := DecodeText([]byte(c.in), Options{})
		if err != nil {
			t.Errorf("%s: %q: unexpected error %v", c.name, c.in, err)
			continue
		}
		if !model.EqualAll(res.Values, c.want) {
			t.Errorf("%s: %q:\n got  %v\n want %v", c.name, c.in, res.Values, c.want)
		}
		if len(res.MaxIDs) != len(res.Values) {
			t.Errorf("%s: MaxIDs length %d != %d", c.name, len(res.MaxIDs), len(res.Values))
		}
	}
}

func one(v *model.Value) []*model.Value { return []*model.Value{v} }

func TestTextInts(t *testing.T) {
	tRunOK(t, []tOKCase{
		{"zero", "0", one(model.NewInt(0))},
		{"neg-zero", "-0", one(model.NewInt(0))},
		{"dec", "123", one(model.NewInt(123))},
		{"neg", "-123", one(model.NewInt(-123))},
		{"underscore", "1_000_000", one(model.NewInt(1000000))},
		{"hex", "0xFF", one(model.NewInt(255))},
		{"hex-mixed", "0XfF_0a", one(model.NewInt(0xff0a))},
		{"hex-negzero", "-0x0", one(model.NewInt(0))},
		{"hex-neg", "-0x1_0", one(model.NewInt(-16))},
		{"bin", "0b101", one(model.NewInt(5))},
		{"bin-neg", "-0B1_0", one(model.NewInt(-2))},
		{"big", "123456789012345678901234567890", one(tBig("123456789012345678901234567890"))},
		{"several", "1 2\t3\n4", []*model.Value{model.NewInt(1), model.NewInt(2), model.NewInt(3), model.NewInt(4)}},
		{"stop-chars", "1[2]3{a:4}5(6)7\"s\"8'q'9//c\n10/*c*/", []*model.Value{
			model.NewInt(1), model.NewSeq(model.List, model.NewInt(2)), model.NewInt(3),
			model.NewSeq(model.Struct, model.NewInt(4).Named(model.T("a"))), model.NewInt(5),
			model.NewSeq(model.Sexp, model.NewInt(6)), model.NewInt(7), model.NewString("s"), model.NewInt(8),
			tSym("q"), model.NewInt(9), model.NewInt(10)}},
	})
}

func TestTextDecimals(t *testing.T) {
	tRunOK(t, []tOKCase{
		{"0.", "0.", one(tDec(0, 0, false))},
		{"-0.", "-0.", one(tDec(0, 0, true))},
		{"-0.0", "-0.0", one(tDec(0, -1, true))},
		{"-0d5", "-0d5", one(tDec(0, 5, true))},
		{"0d0", "0d0", one(tDec(0, 0, false))},
		{"1.5", "1.5", one(tDec(15, -1, false))},
		{"1.5d-3", "1.5d-3", one(tDec(15, -4, false))},
		{"123d4", "123d4", one(tDec(123, 4, false))},
		{"1D+2", "1D+2", one(tDec(1, 2, false))},
		{"-1.50", "-1.50", one(tDec(-150, -2, false))},
		{"underscores", "1_0.2_5", one(tDec(1025, -2, false))},
		{"1.d2", "1.d2", one(tDec(1, 2, false))},
		{"0.001", "0.001", one(tDec(1, -3, false))},
		{"exp-leading-zero", "1d05", one(tDec(1, 5, false))},
	})
	res, err := DecodeText([]byte("12345678901234567890.12345678901234567890"), Options{})
	if err != nil {
		t.Fatal(err)
	}
	want, _ := new(big.Int).SetString("1234567890123456789012345678901234567890", 10)
	if res.Values[0].Dec.Coef.Cmp(want) != 0 || res.Values[0].Dec.Exp != -20 {
		t.Errorf("big decimal: %v", res.Values[0])
	}
}

func TestTextFloats(t *testing.T) {
	tRunOK(t, []tOKCase{
		{"1e0", "1e0", one(model.NewFloat(1))},
		{"1.5e3", "1.5e3", one(model.NewFloat(1500))},
		{"1E-2", "1E-2", one(model.NewFloat(0.01))},
		{"1.e2", "1.e2", one(model.NewFloat(100))},
		{"-2.5e+1", "-2.5e+1", one(model.NewFloat(-25))},
		{"underscore", "1_0.5e1", one(model.NewFloat(105))},
		{"-0e0", "-0e0", one(model.NewFloat(math.Copysign(0, -1)))},
		{"0e0", "0e0", one(model.NewFloat(0))},
		{"overflow", "1e400", one(model.NewFloat(math.Inf(1)))},
		{"neg-overflow", "-1e400", one(model.NewFloat(math.Inf(-1)))},
		{"underflow", "1e-400", one(model.NewFloat(0))},
		{"nan", "nan", one(model.NewFloat(math.NaN()))},
		{"+inf", "+inf", one(model.NewFloat(math.Inf(1)))},
		{"-inf", "-inf", one(model.NewFloat(math.Inf(-1)))},
		{"inf-symbol", "inf", one(tSym("inf"))},
		{"sexp-inf", "(+inf -inf nan)", one(model.NewSeq(model.Sexp, model.NewFloat(math.Inf(1)), model.NewFloat(math.Inf(-1)), model.NewFloat(math.NaN())))},
	})
	res, _ := DecodeText([]byte("-0e0"), Options{})
	if res == nil || res.Values[0].Bits != 1<<63 {
		t.Errorf("-0e0 must be negative zero")
	}
}

func TestTextTimestamps(t *testing.T) {
	tRunOK(t, []tOKCase{
		{"year", "2007T", one(tTS(model.Year, 2007, 0, 0, 0, 0, 0, "", true, 0))},
		{"month", "2007-02T", one(tTS(model.Month, 2007, 2, 0, 0, 0, 0, "", true, 0))},
		{"day", "2007-02-23", one(tTS(model.Day, 2007, 2, 23, 0, 0, 0, "", true, 0))},
		{"dayT", "2007-02-23T", one(tTS(model.Day, 2007, 2, 23, 0, 0, 0, "", true, 0))},
		{"leap", "2000-02-29", one(tTS(model.Day, 2000, 2, 29, 0, 0, 0, "", true, 0))},
		{"minute-Z", "2007-02-23T12:14Z", one(tTS(model.Minute, 2007, 2, 23, 12, 14, 0, "", false, 0))},
		{"minute-plus", "2007-02-23T12:14+01:30", one(tTS(model.Minute, 2007, 2, 23, 12, 14, 0, "", false, 90))},
		{"minute-minus", "2007-02-23T12:14-08:00", one(tTS(model.Minute, 2007, 2, 23, 12, 14, 0, "", false, -480))},
		{"minute-unknown", "2007-02-23T12:14-00:00", one(tTS(model.Minute, 2007, 2, 23, 12, 14, 0, "", true, 0))},
		{"minute-plus-zero", "2007-02-23T12:14+00:00", one(tTS(model.Minute, 2007, 2, 23, 12, 14, 0, "", false, 0))},
		{"second-Z", "2007-02-23T12:14:33Z", one(tTS(model.Second, 2007, 2, 23, 12, 14, 33, "", false, 0))},
		{"second-off", "2007-02-23T12:14:33+23:59", one(tTS(model.Second, 2007, 2, 23, 12, 14, 33, "", false, 23*60+59))},
		{"second-unknown", "2007-02-23T23:59:59-00:00", one(tTS(model.Second, 2007, 2, 23, 23, 59, 59, "", true, 0))},
		{"frac-Z", "2007-02-23T12:14:33.079Z", one(tTS(model.Fraction, 2007, 2, 23, 12, 14, 33, "079", false, 0))},
		{"frac-trailing-zeros", "2007-02-23T12:14:33.100-08:00", one(tTS(model.Fraction, 2007, 2, 23, 12, 14, 33, "100", false, -480))},
		{"frac-zero", "2007-02-23T12:14:33.0-00:00", one(tTS(model.Fraction, 2007, 2, 23, 12, 14, 33, "0", true, 0))},
		{"frac-long", "2007-02-23T00:00:00.12345678901234567890Z", one(tTS(model.Fraction, 2007, 2, 23, 0, 0, 0, "12345678901234567890", false, 0))},
		{"min-year", "0001T", one(tTS(model.Year, 1, 0, 0, 0, 0, 0, "", true, 0))},
		{"max", "9999-12-31T23:59:59.999Z", one(tTS(model.Fraction, 9999, 12, 31, 23, 59, 59, "999", false, 0))},
		{"in-list", "[2007T,2007-01T]", one(model.NewSeq(model.List, tTS(model.Year, 2007, 0, 0, 0, 0, 0, "", true, 0), tTS(model.Month, 2007, 1, 0, 0, 0, 0, "", true, 0)))},
	})
	// trailing zeros in the fraction are significant
	a, _ := DecodeText([]byte("2007-02-23T12:14:33.1Z"), Options{})
	b, _ := DecodeText([]byte("2007-02-23T12:14:33.10Z"), Options{})
	if a == nil || b == nil || model.EqualAll(a.Values, b.Values) {
		t.Errorf("fraction .1 and .10 must differ")
	}
}

func TestTextStrings(t *testing.T) {
	tRunOK(t, []tOKCase{
		{"empty", `""`, one(model.NewString(""))},
		{"plain", `"hello"`, one(model.NewString("hello"))},
		{"escapes", `"\a\b\t\n\f\r\v\?\0\'\"\/\\"`, one(model.NewString("\a\b\t\n\f\r\v?\x00'\"/\\"))},
		{"hex", `"\x41\xe9"`, one(model.NewString("A\u00e9"))},
		{"u", `"\u00e9\u2028"`, one(model.NewString("\u00e9\u2028"))},
		{"U", `"\U0001F600\U0010FFFF"`, one(model.NewString("\U0001F600\U0010FFFF"))},
		{"surrogate-pair", `"\uD83D\uDE00"`, one(model.NewString("\U0001F600"))},
		{"continuation-lf", "\"ab\\\ncd\"", one(model.NewString("abcd"))},
		{"continuation-crlf", "\"ab\\\r\ncd\"", one(model.NewString("abcd"))},
		{"continuation-cr", "\"ab\\\rcd\"", one(model.NewString("abcd"))},
		{"raw-utf8", "\"h\u00e9llo \U0001F600\"", one(model.NewString("h\u00e9llo \U0001F600"))},
		{"raw-tab", "\"a\tb\"", one(model.NewString("a\tb"))},
		{"comment-like", `"// not /* a comment */"`, one(model.NewString("// not /* a comment */"))},
		{"single-quote-inside", `"it's"`, one(model.NewString("it's"))},
		{"long", `'''abc'''`, one(model.NewString("abc"))},
		{"long-empty", `''''''`, one(model.NewString(""))},
		{"long-concat", `'''abc''' '''def'''`, one(model.NewString("abcdef"))},
		{"long-concat-comments", "'''abc''' // line\n /* block */ '''def'''\n/* x */'''ghi'''", one(model.NewString("abcdefghi"))},
		{"long-newline", "'''a\nb'''", one(model.NewString("a\nb"))},
		{"long-crlf", "'''a\r\nb\rc\n\rd'''", one(model.NewString("a\nb\nc\n\nd"))},
		{"long-quotes", `'''a'b''c"d'''`, one(model.NewString(`a'b''c"d`))},
		{"long-escapes", `'''\'\'\'\n\x41'''`, one(model.NewString("'''\nA"))},
		{"long-continuation", "'''a\\\nb'''", one(model.NewString("ab"))},
		{"long-then-short", `'''a''' "b"`, []*model.Value{model.NewString("a"), model.NewString("b")}},
		{"long-in-list", `['''a''' '''b''', '''c''']`, one(model.NewSeq(model.List, model.NewString("ab"), model.NewString("c")))},
	})
}

func TestTextSymbols(t *testing.T) {
	tRunOK(t, []tOKCase{
		{"ident", "abc", one(tSym("abc"))},
		{"ident-chars", "_a$1 $ _ $a", []*model.Value{tSym("_a$1"), tSym("$"), tSym("_"), tSym("$a")}},
		{"keyword-prefix", "nulls trueish nano falsey", []*model.Value{tSym("nulls"), tSym("trueish"), tSym("nano"), tSym("falsey")}},
		{"quoted", "'hello world'", one(tSym("hello world"))},
		{"quoted-empty", "''", one(tSym(""))},
		{"quoted-keyword", "'null' 'true' 'nan'", []*model.Value{tSym("null"), tSym("true"), tSym("nan")}},
		{"quoted-escapes", `'a\'b\n\x41\u00e9'`, one(tSym("a'b\nA\u00e9"))},
		{"quoted-sid-text", "'$10'", one(tSym("$10"))},
		{"sid-system", "$4", one(tSym("name"))},
		{"sid-zero", "$0", one(model.NewSymbol(model.ID(0)))},
		{"sid-nine", "$9", one(tSym("$ion_shared_symbol_table"))},
		{"operators", "(+ - * / a+b <= && . ...)", one(model.NewSeq(model.Sexp, tSym("+"), tSym("-"), tSym("*"), tSym("/"),
			tSym("a"), tSym("+"), tSym("b"), tSym("<="), tSym("&&"), tSym("."), tSym("...")))},
		{"operators-all", "(!#%&*+-./;<=>?@^`|~)", one(model.NewSeq(model.Sexp, tSym("!#%&*+-./;<=>?@^`|~")))},
		{"operator-comment", "(a//c\n+/*c*/b)", one(model.NewSeq(model.Sexp, tSym("a"), tSym("+"), tSym("b")))},
		{"operator-then-number", "(* 1 - 2 -3)", one(model.NewSeq(model.Sexp, tSym("*"), model.NewInt(1), tSym("-"), model.NewInt(2), model.NewInt(-3)))},
		{"bools", "true false", []*model.Value{model.NewBool(true), model.NewBool(false)}},
	})
}

func TestTextNulls(t *testing.T) {
	var all []*model.Value
	var src []string
	for k := model.Null; k <= model.Struct; k++ {
		all = append(all, model.NewNull(k))
		src = append(src, "null."+k.String())
	}
	tRunOK(t, []tOKCase{
		{"null", "null", one(model.NewNull(model.Null))},
		{"typed", strings.Join(src, " "), all},
		{"in-sexp", "(null null.int)", one(model.NewSeq(model.Sexp, model.NewNull(model.Null), model.NewNull(model.Int)))},
		{"annotated", "a::null.list", one(model.NewNull(model.List).With(model.T("a")))},
		{"field", "{a:null.struct}", one(model.NewSeq(model.Struct, model.NewNull(model.Struct).Named(model.T("a"))))},
	})
}

func TestTextLobs(t *testing.T) {
	tRunOK(t, []tOKCase{
		{"blob-empty", "{{}}", one(model.NewLob(model.Blob, nil))},
		{"blob-empty-ws", "{{ \n }}", one(model.NewLob(model.Blob, nil))},
		{"blob", "{{aGVsbG8=}}", one(model.NewLob(model.Blob, []byte("hello")))},
		{"blob-ws", "{{ aGVs\n\tbG8 = }}", one(model.NewLob(model.Blob, []byte("hello")))},
		{"blob-pad2", "{{ YQ== }}", one(model.NewLob(model.Blob, []byte("a")))},
		{"blob-nopad", "{{ YWJj }}", one(model.NewLob(model.Blob, []byte("abc")))},
		{"blob-plus-slash", "{{ +/+/ }}", one(model.NewLob(model.Blob, []byte{0xfb, 0xff, 0xbf}))},
		{"clob-short", `{{"hello"}}`, one(model.NewLob(model.Clob, []byte("hello")))},
		{"clob-short-ws", "{{ \n\"a\\x80\\xff\\n\\0\" \t}}", one(model.NewLob(model.Clob, []byte{'a', 0x80, 0xff, '\n', 0}))},
		{"clob-empty", `{{""}}`, one(model.NewLob(model.Clob, []byte{}))},
		{"clob-long", "{{'''ab''' \n '''cd'''}}", one(model.NewLob(model.Clob, []byte("abcd")))},
		{"clob-long-newline", "{{'''a\r\nb'''}}", one(model.NewLob(model.Clob, []byte("a\nb")))},
		{"clob-slashes", `{{"// /* */"}}`, one(model.NewLob(model.Clob, []byte("// /* */")))},
		{"in-containers", `[{{YQ==}}, {a:{{"x"}}}, ({{}})]`, one(model.NewSeq(model.List,
			model.NewLob(model.Blob, []byte("a")),
			model.NewSeq(model.Struct, model.NewLob(model.Clob, []byte("x")).Named(model.T("a"))),
			model.NewSeq(model.Sexp, model.NewLob(model.Blob, nil))))},
	})
}

func TestTextContainers(t *testing.T) {
	tRunOK(t, []tOKCase{
		{"empty", "[] () {}", []*model.Value{model.NewSeq(model.List), model.NewSeq(model.Sexp), model.NewSeq(model.Struct)}},
		{"list", "[1, a, \"s\"]", one(model.NewSeq(model.List, model.NewInt(1), tSym("a"), model.NewString("s")))},
		{"sexp", "(1 a \"s\")", one(model.NewSeq(model.Sexp, model.NewInt(1), tSym("a"), model.NewString("s")))},
		{"struct-names", `{a:1, 'b c':2, "d":3, '''e''' '''f''':4, $4:5, $0:6}`, one(model.NewSeq(model.Struct,
			model.NewInt(1).Named(model.T("a")), model.NewInt(2).Named(model.T("b c")), model.NewInt(3).Named(model.T("d")),
			model.NewInt(4).Named(model.T("ef")), model.NewInt(5).Named(model.T("name")), model.NewInt(6).Named(model.ID(0))))},
		{"struct-quoted-keyword-name", `{'null':1, "true":2}`, one(model.NewSeq(model.Struct,
			model.NewInt(1).Named(model.T("null")), model.NewInt(2).Named(model.T("true"))))},
		{"struct-dup", `{a:1,a:2}`, one(model.NewSeq(model.Struct, model.NewInt(1).Named(model.T("a")), model.NewInt(2).Named(model.T("a"))))},
		{"nested-comments", "/*0*/[/*1*/1/*2*/,/*3*/{/*4*/a/*5*/:/*6*/(/*7*/b/*8*/c//9\n)/*10*/}//11\n,[]]//12",
			one(model.NewSeq(model.List, model.NewInt(1),
				model.NewSeq(model.Struct, model.NewSeq(model.Sexp, tSym("b"), tSym("c")).Named(model.T("a"))),
				model.NewSeq(model.List)))},
		{"deep", "[[[[({a:[()]})]]]]", one(model.NewSeq(model.List, model.NewSeq(model.List, model.NewSeq(model.List, model.NewSeq(model.List,
			model.NewSeq(model.Sexp, model.NewSeq(model.Struct, model.NewSeq(model.List, model.NewSeq(model.Sexp)).Named(model.T("a")))))))))},
		{"sexp-no-space", `(a"b"[1]{c:2}(d)'e')`, one(model.NewSeq(model.Sexp, tSym("a"), model.NewString("b"),
			model.NewSeq(model.List, model.NewInt(1)), model.NewSeq(model.Struct, model.NewInt(2).Named(model.T("c"))),
			model.NewSeq(model.Sexp, tSym("d")), tSym("e")))},
		{"vt-ff-whitespace", "1\x0b2\x0c3", []*model.Value{model.NewInt(1), model.NewInt(2), model.NewInt(3)}},
	})
}

func TestTextAnnotations(t *testing.T) {
	tRunOK(t, []tOKCase{
		{"simple", "a::1", one(model.NewInt(1).With(model.T("a")))},
		{"multi", "a::b::c", one(tSym("c").With(model.T("a"), model.T("b")))},
		{"ws", "a :: 'b c' ::\n/*x*/ $4 //y\n :: [1]", one(model.NewSeq(model.List, model.NewInt(1)).With(model.T("a"), model.T("b c"), model.T("name")))},
		{"quoted-keyword", "'null'::'true'::1", one(model.NewInt(1).With(model.T("null"), model.T("true")))},
		{"sid-zero", "$0::1", one(model.NewInt(1).With(model.ID(0)))},
		{"in-struct", "{f:a::1}", one(model.NewSeq(model.Struct, model.NewInt(1).With(model.T("a")).Named(model.T("f"))))},
		{"in-sexp", "(a::b c :: 1)", one(model.NewSeq(model.Sexp, tSym("b").With(model.T("a")), model.NewInt(1).With(model.T("c"))))},
		{"on-containers", "a::{} b::() c::{{}}", []*model.Value{model.NewSeq(model.Struct).With(model.T("a")),
			model.NewSeq(model.Sexp).With(model.T("b")), model.NewLob(model.Blob, nil).With(model.T("c"))}},
		{"annotated-ivm-is-value", "a::$ion_1_0", one(tSym("$ion_1_0").With(model.T("a")))},
		{"quoted-ivm-is-value", "'$ion_1_0'", one(tSym("$ion_1_0"))},
		{"ivm-in-list-is-value", "[$ion_1_0]", one(model.NewSeq(model.List, tSym("$ion_1_0")))},
	})
}

func TestTextSymbolTables(t *testing.T) {
	res, err := DecodeText([]byte(`$ion_1_0 $ion_symbol_table::{symbols:["foo","bar"]} $10 $11 bar::{$10:$11} `+
		`$ion_symbol_table::{imports:$ion_symbol_table, symbols:["baz", null, 3]} $12 $13 $14 $10 `+
		`$ion_1_0 name`), Options{KeepContexts: true})
	if err != nil {
		t.Fatal(err)
	}
	want := []*model.Value{tSym("foo"), tSym("bar"),
		model.NewSeq(model.Struct, tSym("bar").Named(model.T("foo"))).With(model.T("bar")),
		tSym("baz"), model.NewSymbol(model.ID(13)), model.NewSymbol(model.ID(14)), tSym("foo"), tSym("name")}
	if !model.EqualAll(res.Values, want) {
		t.Fatalf("got %v\nwant %v", res.Values, want)
	}
	wantMax := []int64{11, 11, 11, 14, 14, 14, 14, 9}
	for i := range wantMax {
		if res.MaxIDs[i] != wantMax[i] {
			t.Errorf("MaxIDs[%d]=%d want %d", i, res.MaxIDs[i], wantMax[i])
		}
	}
	if len(res.Contexts) != len(want) || len(res.Contexts[0]) != 11 || len(res.Contexts[7]) != 9 {
		t.Errorf("contexts not kept correctly")
	}

	// references inside the LST struct resolve against the previous context; $3 annotation by ID is an LST.
	res, err = DecodeText([]byte(`$3::{$7:["a"]} $10 $ion_symbol_table::{symbols:["b"], x:$10} $10`), Options{})
	if err != nil {
		t.Fatal(err)
	}
	if !model.EqualAll(res.Values, []*model.Value{tSym("a"), tSym("b")}) {
		t.Errorf("got %v", res.Values)
	}

	// imports via catalog
	cat := &model.Catalog{Tables: []model.Shared{{Name: "T", Version: 1, Symbols: []string{"x", "y", "z"}}}}
	res, err = DecodeText([]byte(`$ion_symbol_table::{imports:[{name:"T",version:1,max_id:2}],symbols:["l"]} $10 $11 $12`), Options{Catalog: cat})
	if err != nil {
		t.Fatal(err)
	}
	if !model.EqualAll(res.Values, []*model.Value{tSym("x"), tSym("y"), tSym("l")}) {
		t.Errorf("got %v", res.Values)
	}
	// not LSTs: second annotation, nested, null annotations
	res, err = DecodeText([]byte(`a::$ion_symbol_table::{symbols:["q"]} [$ion_symbol_table::{symbols:["q"]}]`), Options{})
	if err != nil {
		t.Fatal(err)
	}
	if len(res.Values) != 2 || res.MaxIDs[1] != 9 {
		t.Errorf("non-LST structs must be user values: %v %v", res.Values, res.MaxIDs)
	}
}

type tErrCase struct {
	in     string
	rule   string
	unsure bool
}

func TestTextErrors(t *testing.T) {
	cases := []tErrCase{
		{"\"a\xff\"", "text.invalid-utf8", false},
		{"\xc3", "text.invalid-utf8", false},
		{"/* abc", "text.unterminated-comment", false},
		{"[1 /* abc", "text.unterminated-comment", false},
		{"null.foo", "text.bad-null-type", false},
		{"null.", "text.bad-null-type", false},
		{"null.Int", "text.bad-null-type", false},
		{"null.ints", "text.bad-null-type", false},
		{"(null.foo)", "text.bad-null-type", true},
		{"null .int", "text.operator-outside-sexp", false},
		{"007", "text.leading-zero", false},
		{"-01", "text.leading-zero", false},
		{"00.5", "text.leading-zero", false},
		{"01e0", "text.leading-zero", false},
		{"1__0", "text.bad-underscore", false},
		{"1_", "text.bad-underscore", false},
		{"1_.0", "text.bad-underscore", false},
		{"1._0", "text.bad-underscore", false},
		{"1.0_", "text.bad-underscore", false},
		{"0x_1", "text.bad-underscore", false},
		{"0x1_", "text.bad-underscore", false},
		{"0b1__0", "text.bad-underscore", false},
		{"_1", "", false}, // a symbol, not an error; checked below
		{"0x", "text.bad-number", false},
		{"0b", "text.bad-number", false},
		{"1e", "text.bad-number", false},
		{"1d+", "text.bad-number", false},
		{"-2007-01-01", "text.bad-number", false},
		{"1d1_0", "text.underscore-in-exponent", true},
		{"1d99999999999", "text.decimal-exponent-range", true},
		{"123abc", "text.number-not-terminated", false},
		{"1.5x", "text.number-not-terminated", false},
		{"0b12", "text.number-not-terminated", false},
		{"0xfg", "text.number-not-terminated", false},
		{"1e5e5", "text.number-not-terminated", false},
		{"1.2.3", "text.number-not-terminated", false},
		{"(1+2)", "text.number-not-terminated", false},
		{"(1.5*2)", "text.number-not-terminated", false},
		{"(2007T+1)", "text.number-not-terminated", false},
		{"1:", "text.number-not-terminated", false},
		{"2007-01-01T00:00Zx", "text.number-not-terminated", false},
		{"2007Tx", "text.number-not-terminated", false},
		{"12/3", "text.number-not-terminated", false},
		{"(+inf+)", "text.sexp-inf-ambiguity", true},
		{"(-infx)", "text.sexp-inf-ambiguity", true},
		{"(+1)", "text.sexp-operator-number-ambiguity", true},
		{"(--1)", "text.sexp-operator-number-ambiguity", true},
		{"(a-1)", "text.sexp-operator-number-ambiguity", true},
		{"+inf1", "text.operator-outside-sexp", false},
		{"2007-01-01T00:00", "text.ts-missing-offset", false},
		{"2007-01-01T00:00:00", "text.ts-missing-offset", false},
		{"2007-01-01T00:00:00.0", "text.ts-missing-offset", false},
		{"[2007-01-01T00:00]", "text.ts-missing-offset", false},
		{"0000T", "text.ts-bad-field", false},
		{"0000-01-01", "text.ts-bad-field", false},
		{"2007-00T", "text.ts-bad-field", false},
		{"2007-13T", "text.ts-bad-field", false},
		{"2007-01-00", "text.ts-bad-field", false},
		{"2007-01-32", "text.ts-bad-field", false},
		{"2007-02-29", "text.ts-bad-field", false},
		{"1900-02-29", "text.ts-bad-field", false},
		{"2007-04-31T", "text.ts-bad-field", false},
		{"2007-01-01T24:00Z", "text.ts-bad-field", false},
		{"2007-01-01T00:60Z", "text.ts-bad-field", false},
		{"2007-01-01T00:00:60Z", "text.ts-bad-field", false},
		{"2007-01-01T00:00+24:00", "text.ts-bad-field", false},
		{"2007-01-01T00:00-00:60", "text.ts-bad-field", false},
		{"2007-01", "text.ts-bad-format", false},
		{"2007-1-01", "text.ts-bad-format", false},
		{"2007-01-1", "text.ts-bad-format", false},
		{"2007-01-01T1:00Z", "text.ts-bad-format", false},
		{"2007-01-01T12Z", "text.ts-bad-format", false},
		{"2007-01-01T12:00:00.Z", "text.ts-bad-format", false},
		{"2007-01-01T12:00+0100", "text.ts-bad-format", false},
		{"2007-01-01T12:00+01", "text.ts-bad-format", false},
		{"2007-01-01T12:00z", "text.ts-bad-format", false},
		{"0001-01-01T00:00+00:01", "text.ts-utc-out-of-range", true},
		{"9999-12-31T23:59-00:01", "text.ts-utc-out-of-range", true},
		{"\"abc", "text.unterminated-string", false},
		{"\"abc\\", "text.unterminated-string", false},
		{"\"abc\\\"", "text.unterminated-string", false},
		{"'''abc", "text.unterminated-string", false},
		{"'''abc''", "text.unterminated-string", false},
		{"'''a''' '''b", "text.unterminated-string", false},
		{"'abc", "text.unterminated-symbol", false},
		{"\"a\nb\"", "text.newline-in-string", false},
		{"\"a\rb\"", "text.newline-in-string", false},
		{"{{\"a\nb\"}}", "text.newline-in-string", false},
		{"'a\nb'", "text.newline-in-symbol", false},
		{"\"a\x01b\"", "text.control-char-in-string", true},
		{"'''a\x00b'''", "text.control-char-in-string", true},
		{`"\q"`, "text.bad-escape", false},
		{`"\1"`, "text.bad-escape", false},
		{`"\N"`, "text.bad-escape", false},
		{`"\x4"`, "text.bad-escape", false},
		{`"\x4g"`, "text.bad-escape", false},
		{`"\u12"`, "text.bad-escape", false},
		{`"\u123g"`, "text.bad-escape", false},
		{`"\U0001F60"`, "text.bad-escape", false},
		{`"\U00110000"`, "text.bad-escape", false},
		{`'\q'`, "text.bad-escape", false},
		{`'''\q'''`, "text.bad-escape", false},
		{`{{"\q"}}`, "text.bad-escape", false},
		{`"\uD800"`, "text.lone-surrogate", true},
		{`"\uD800x"`, "text.lone-surrogate", true},
		{`"\uD800\u0041"`, "text.lone-surrogate", true},
		{`"\uDC00"`, "text.lone-surrogate", true},
		{`"\U0000D800"`, "text.lone-surrogate", true},
		{"$10", "sym.id-out-of-range", false},
		{"$99999999999999999999999", "sym.id-out-of-range", false},
		{"$10::1", "sym.id-out-of-range", false},
		{"{$10:1}", "sym.id-out-of-range", false},
		{"$ion_symbol_table::{symbols:[\"a\"]} $11", "sym.id-out-of-range", false},
		{"$007", "text.sid-leading-zero", true},
		{"+", "text.operator-outside-sexp", false},
		{"[a,+b]", "text.operator-outside-sexp", false},
		{"[a+b]", "text.missing-comma", false},
		{"{a:*}", "text.operator-outside-sexp", false},
		{"a.b", "text.operator-outside-sexp", false},
		{"+1", "text.operator-outside-sexp", false},
		{"-a", "text.operator-outside-sexp", false},
		{"{{aGVsbG8}}", "text.bad-base64", false},
		{"{{aGVsbG8==}}", "text.bad-base64", false},
		{"{{a=VsbG8=}}", "text.bad-base64", false},
		{"{{YQ===}}", "text.bad-base64", false},
		{"{{YQ=a}}", "text.bad-base64", false},
		{"{{=}}", "text.bad-base64", false},
		{"{{a}}", "text.bad-base64", false},
		{"{{YQ$=}}", "text.bad-base64", false},
		{"{{YQ== /* c */}}", "text.bad-base64", false},
		{"{{ // c\n YQ== }}", "text.bad-base64", false},
		{"{{YR==}}", "text.base64-noncanonical", true},
		{"{{\"h\u00e9\"}}", "text.clob-non-ascii", false},
		{"{{'''h\u00e9'''}}", "text.clob-non-ascii", false},
		{`{{"\u0041"}}`, "text.clob-unicode-escape", false},
		{`{{'''\U00000041'''}}`, "text.clob-unicode-escape", false},
		{"{{YQ==} }", "text.bad-lob-close", false},
		{`{{"a"} }`, "text.bad-lob-close", false},
		{`{{"a" "b"}}`, "text.bad-lob-close", false},
		{`{{"a" /* c */}}`, "text.bad-lob-close", false},
		{`{{'''a''' /* c */ '''b'''}}`, "text.bad-lob-close", false},
		{`{{"a"}x`, "text.bad-lob-close", false},
		{"{{YQ==", "text.unterminated-lob", false},
		{"{{", "text.unterminated-lob", false},
		{"{{YQ==}", "text.unterminated-lob", false},
		{`{{"a"`, "text.unterminated-lob", false},
		{`{{"a`, "text.unterminated-lob", false},
		{`{{'''a'''`, "text.unterminated-lob", false},
		{`{{'''a`, "text.unterminated-lob", false},
		{"[1,]", "text.trailing-comma", true},
		{"{a:1,}", "text.trailing-comma", true},
		{"[,1]", "text.misplaced-comma", false},
		{"[1,,2]", "text.misplaced-comma", false},
		{"[,]", "text.misplaced-comma", false},
		{"{,a:1}", "text.misplaced-comma", false},
		{"{a:1,,b:2}", "text.misplaced-comma", false},
		{"[1 2]", "text.missing-comma", false},
		{"[a b]", "text.missing-comma", false},
		{"{a:1 b:2}", "text.missing-comma", false},
		{"{null:1}", "text.keyword-field-name", false},
		{"{true:1}", "text.keyword-field-name", false},
		{"{false:1}", "text.keyword-field-name", false},
		{"{nan:1}", "text.keyword-field-name", false},
		{"{null.int:1}", "text.keyword-field-name", false},
		{"{a 1}", "text.expected-colon", false},
		{"{a}", "text.expected-colon", false},
		{"{\"a\",}", "text.expected-colon", false},
		{"{a:}", "text.dangling-field-name", false},
		{"{a:,b:1}", "text.dangling-field-name", false},
		{"{a:]", "text.dangling-field-name", false},
		{"{1:2}", "text.bad-field-name", false},
		{"{[a]:2}", "text.bad-field-name", false},
		{"{+:2}", "text.bad-field-name", false},
		{"{a::b:2}", "text.unexpected-char", false},
		{"(1, 2)", "text.comma-in-sexp", false},
		{"(,)", "text.comma-in-sexp", false},
		{"1, 2", "text.comma-at-top-level", false},
		{",", "text.comma-at-top-level", false},
		{"[1, 2", "text.unterminated-container", false},
		{"[", "text.unterminated-container", false},
		{"(a b", "text.unterminated-container", false},
		{"{a:1", "text.unterminated-container", false},
		{"{a:", "text.unterminated-container", false},
		{"{a", "text.unterminated-container", false},
		{"{", "text.unterminated-container", false},
		{"[[[]]", "text.unterminated-container", false},
		{"[1}", "text.unexpected-closer", false},
		{"[1)", "text.unexpected-closer", false},
		{"(1]", "text.unexpected-closer", false},
		{"(1}", "text.unexpected-closer", false},
		{"{a:1]", "text.unexpected-closer", false},
		{"{)", "text.unexpected-closer", false},
		{"]", "text.unexpected-closer", false},
		{"1 }", "text.unexpected-closer", false},
		{"())", "text.unexpected-closer", false},
		{"null::1", "text.keyword-annotation", false},
		{"true::1", "text.keyword-annotation", false},
		{"false :: 1", "text.keyword-annotation", false},
		{"nan::1", "text.keyword-annotation", false},
		{"a::null.int::1", "text.keyword-annotation", false},
		{"(+::1)", "text.operator-annotation", false},
		{"(a + :: b)", "text.operator-annotation", false},
		{"(a::+)", "text.annotated-operator", true},
		{"a::", "text.dangling-annotation", false},
		{"a:: // c", "text.dangling-annotation", false},
		{"[a::]", "text.dangling-annotation", false},
		{"[a::,1]", "text.dangling-annotation", false},
		{"(a::)", "text.dangling-annotation", false},
		{"{f:a::}", "text.dangling-annotation", false},
		{"a::b::", "text.dangling-annotation", false},
		{"\"a\"::1", "text.unexpected-char", false},
		{"1 : 2", "text.unexpected-char", false},
		{"\\", "text.unexpected-char", false},
		{"\u00e9", "text.unexpected-char", false},
		{"a \u00a0 b", "text.unexpected-char", false},
		{"\x01", "text.unexpected-char", false},
		{"\ufeff1", "text.byte-order-mark", true},
		{"$ion_1_1", "text.unsupported-version", true},
		{"$ion_2_0 1", "text.unsupported-version", true},
		{"$ion_12_34", "text.unsupported-version", true},
		{"$2", "text.sid-version-marker", true},
		{"$ion_symbol_table::null.struct", "sym.null-lst", true},
		{"$ion_symbol_table::{imports:[{name:\"nope\",version:1}]}", "sym.import-no-max-id", false},
		{"1 // a\rb\n", "text.cr-in-line-comment", true},
		{strings.Repeat("[", tMaxDepth+1), "text.too-deep", true},
	}
	for _, c := range cases {
		if c.rule == "" {
			continue
		}
		res, err := DecodeText([]byte(c.in), Options{})
		if err == nil {
			t.Errorf("%q: expected %s, got values %v", c.in, c.rule, res.Values)
			continue
		}
		if res != nil {
			t.Errorf("%q: result must be nil on error", c.in)
		}
		if err.Rule != c.rule || err.Unsure != c.unsure {
			t.Errorf("%q: got %v, want rule %s unsure=%v", c.in, err, c.rule, c.unsure)
		}
		if err.Pos < 0 || err.Pos > len(c.in) {
			t.Errorf("%q: error position %d out of range", c.in, err.Pos)
		}
	}
}

// Things that look odd but are legal.
func TestTextLegalOddities(t *testing.T) {
	tRunOK(t, []tOKCase{
		{"empty", "", nil},
		{"only-ws-comments", " \n// c\n/* d */\t", nil},
		{"comment-at-eof", "1 // no newline", one(model.NewInt(1))},
		{"crlf-comment", "1 // c\r\n2", []*model.Value{model.NewInt(1), model.NewInt(2)}},
		{"underscore-ident", "_1", one(tSym("_1"))},
		{"version-like-with-suffix", "$ion_1_0_ $ion_1 $ion_a_b", []*model.Value{tSym("$ion_1_0_"), tSym("$ion_1"), tSym("$ion_a_b")}},
		{"ivm-only", "$ion_1_0", nil},
		{"ivm-twice", "$ion_1_0 $ion_1_0 1", one(model.NewInt(1))},
		{"shared-table-is-value", "$ion_shared_symbol_table::{name:\"x\",version:1,symbols:[\"a\"]}",
			one(model.NewSeq(model.Struct, model.NewString("x").Named(model.T("name")), model.NewInt(1).Named(model.T("version")),
				model.NewSeq(model.List, model.NewString("a")).Named(model.T("symbols"))).With(model.T("$ion_shared_symbol_table")))},
		{"null-then-dot-in-sexp", "(null .)", one(model.NewSeq(model.Sexp, model.NewNull(model.Null), tSym(".")))},
		{"struct-in-struct-spacing", "{ a : { b : [ ] } }", one(model.NewSeq(model.Struct,
			model.NewSeq(model.Struct, model.NewSeq(model.List).Named(model.T("b"))).Named(model.T("a"))))},
		{"slash-operator", "(a / b)", one(model.NewSeq(model.Sexp, tSym("a"), tSym("/"), tSym("b")))},
		{"line-cont-in-symbol", "'a\\\nb'", one(tSym("ab"))},
	})
}

// Never panic, never hang: every prefix and some mutations of a rich document.
func TestTextRobustness(t *testing.T) {
	doc := "$ion_1_0 $ion_symbol_table::{symbols:[\"s\"]} a::b::{f:[1,-0x1F,0b1_0,1.5d-3,-0e0,nan,+inf,2007-02-23T12:14:33.079-08:00,2007T]," +
		"'q s':(a + -1 \"x\\u00e9\\n\" '''l1''' /*c*/ '''l2'''), g:{{aGVsbG8=}}, h:{{\"c\\x01\"}}, i:{{'''a''' '''b'''}}, j:null.int, k:$10} // end\n"
	if _, err := DecodeText([]byte(doc), Options{}); err != nil {
		t.Fatalf("rich doc: %v", err)
	}
	for i := 0; i <= len(doc); i++ {
		_, err := DecodeText([]byte(doc[:i]), Options{})
		if err != nil && err.Rule == "internal.panic" {
			t.Errorf("prefix %d panicked: %v", i, err)
		}
	}
	repl := []byte{0, '"', '\'', '{', '}', '[', ']', '(', ')', ',', ':', '\\', '/', '*', '-', '+', '.', '_', '0', '9', 'T', 'e', 'd', '$', '\n', '\r', 0x80, 0xff}
	for i := 0; i < len(doc); i++ {
		for _, r := range repl {
			b := []byte(doc)
			b[i] = r
			_, err := DecodeText(b, Options{})
			if err != nil && err.Rule == "internal.panic" {
				t.Errorf("mutation at %d with %q panicked: %v", i, r, err)
			}
		}
	}
}

// Package sim holds the simulated components behind ion-go's seams: Source (io.Reader), Sink (io.Writer),
// stored-medium faults, and the seeded task scheduler. It does not import ion-go.
package sim

import (
	"errors"
	"fmt"
	"io"
)

// ReadPlan is the delivery plan of a Source: an explicit, replayable description of how the stored bytes
// reach the reader.
type ReadPlan struct {
	Name string `json:"name,omitempty"`
	// Steps[i] applies to the i-th Read call that delivers data or an empty read: N>0 delivers up to N bytes,
	// N==0 returns (0,nil). When Steps is exhausted, Tail applies to every later call.
	Steps []int `json:"steps,omitempty"`
	// Tail is the chunk size after Steps are exhausted (0 = as much as the caller asks for).
	Tail int `json:"tail,omitempty"`
	// EOFWithLast delivers io.EOF together with the last data bytes instead of on a separate call.
	EOFWithLast bool `json:"eof_with_last,omitempty"`
	// Fault, if any.
	Fault *ReadFault `json:"fault,omitempty"`
}

// ReadFault makes the Source fail at byte offset At: bytes [0,At) are delivered (no chunk crosses At), then
// the failure is returned. At == len(data) means "fails instead of reporting end of data".
type ReadFault struct {
	At       int  `json:"at"`
	Sticky   bool `json:"sticky,omitempty"`    // every later Read fails too; otherwise only once
	WithData bool `json:"with_data,omitempty"` // the error accompanies the last bytes before At (n>0, err!=nil)
	// ErrKind selects the identity of the error the failing Read returns: "" = sim.ErrInjected, "unexpected-eof" =
	// io.ErrUnexpectedEOF (what a cut HTTP body or decompressor returns), "closed-pipe" = io.ErrClosedPipe.
	ErrKind string `json:"err_kind,omitempty"`
}

// FaultErr maps an error kind to the error value a failing call returns.
func FaultErr(kind string, write bool) error {
	switch kind {
	case "unexpected-eof":
		return io.ErrUnexpectedEOF
	case "closed-pipe":
		return io.ErrClosedPipe
	case "wrapped-eof":
		return errWrappedEOF
	case "short-write":
		return io.ErrShortWrite
	}
	if write {
		return ErrInjectedWrite
	}
	return ErrInjected
}

// ErrInjected is the error every injected read failure wraps.
var ErrInjected = errors.New("sim: injected read failure")

// ErrInjectedWrite is the error every injected write failure wraps.
var ErrInjectedWrite = errors.New("sim: injected write failure")

// errWrappedEOF is a failure whose chain contains io.EOF ("read tcp ...: EOF"): it is not io.EOF itself, so a reader must
// not take it for the end of the data.
var errWrappedEOF = fmt.Errorf("sim: connection reset while reading: %w", io.EOF)

// Spin is the sentinel panic raised when the reader keeps calling Read after end of data.
type Spin struct{ ReadsAfterEnd int }

func (s Spin) String() string { return fmt.Sprintf("sim.Spin(reads after end=%d)", s.ReadsAfterEnd) }

// Event is one seam event.
type Event struct {
	Seam string `json:"seam"`
	Req  int    `json:"req"`
	N    int    `json:"n"`
	Err  string `json:"err,omitempty"`
}

// Source is the simulated io.Reader.
type Source struct {
	Data []byte
	Plan ReadPlan

	// Yield, if set, is called at the start of every Read (scheduler yield point).
	Yield func(seam string)
	// Record keeps the full event list (otherwise only the hash and counters are kept).
	Record bool
	// AfterEndBudget is the number of Read calls tolerated after end of data / sticky failure was reported.
	AfterEndBudget int

	pos        int
	step       int
	faultDone  bool // transient fault already delivered
	faultFired bool
	ended      bool // io.EOF or a sticky failure has been returned at least once

	Reads         int
	Delivered     int
	EmptyReads    int
	ReadsAfterEnd int
	MaxChunk      int
	Hash          uint64
	Events        []Event
	// Cuts records the offsets at which a chunk boundary fell (for probes).
	Cuts []int
	// Seeks counts Seek calls (SeekSource only); pastEnd: a seek went beyond the stored bytes.
	Seeks   int
	pastEnd bool
}

func NewSource(data []byte, plan ReadPlan) *Source {
	return &Source{Data: data, Plan: plan, AfterEndBudget: 64, Hash: 1469598103934665603}
}

func (s *Source) FaultFired() bool { return s.faultFired }
func (s *Source) Pos() int         { return s.pos }

func (s *Source) note(req, n int, err error) {
	es := ""
	if err != nil {
		if err == io.EOF {
			es = "EOF"
		} else {
			es = "ERR"
		}
	}
	h := s.Hash
	h = (h ^ uint64(n+1)) * 1099511628211
	h = (h ^ uint64(len(es)+7)) * 1099511628211
	s.Hash = h
	if s.Record {
		s.Events = append(s.Events, Event{Seam: "src.Read", Req: req, N: n, Err: es})
	}
}

func (s *Source) Read(p []byte) (int, error) {
	if s.Yield != nil {
		s.Yield("src.Read")
	}
	s.Reads++
	if s.ended {
		s.ReadsAfterEnd++
		if s.ReadsAfterEnd > s.AfterEndBudget {
			panic(Spin{s.ReadsAfterEnd})
		}
	}
	if len(p) == 0 {
		s.note(0, 0, nil)
		return 0, nil
	}
	f := s.Plan.Fault
	// Sticky failure already reached.
	if f != nil && f.Sticky && s.faultFired {
		s.note(len(p), 0, ErrInjected)
		return 0, FaultErr(f.ErrKind, false)
	}
	// Failure point reached exactly.
	if f != nil && !s.faultDone && s.pos == f.At && !(f.WithData && f.At > 0) {
		s.faultDone = true
		s.faultFired = true
		if f.Sticky {
			s.ended = true
		}
		s.note(len(p), 0, ErrInjected)
		return 0, FaultErr(f.ErrKind, false)
	}
	if s.pos >= len(s.Data) {
		s.ended = true
		s.note(len(p), 0, io.EOF)
		return 0, io.EOF
	}
	// Decide the chunk size.
	want := len(p)
	if s.step < len(s.Plan.Steps) {
		n := s.Plan.Steps[s.step]
		s.step++
		if n == 0 {
			s.EmptyReads++
			s.note(len(p), 0, nil)
			return 0, nil
		}
		if n < want {
			want = n
		}
	} else if s.Plan.Tail > 0 && s.Plan.Tail < want {
		want = s.Plan.Tail
	}
	limit := len(s.Data)
	if f != nil && !s.faultDone && f.At > s.pos && f.At < limit {
		limit = f.At
	}
	if s.pos+want > limit {
		want = limit - s.pos
	}
	n := copy(p, s.Data[s.pos:s.pos+want])
	s.pos += n
	s.Delivered += n
	if n > s.MaxChunk {
		s.MaxChunk = n
	}
	if s.pos < len(s.Data) {
		s.Cuts = append(s.Cuts, s.pos)
	}
	// Error together with the last bytes before the failure point.
	if f != nil && !s.faultDone && f.WithData && s.pos == f.At && f.At > 0 {
		s.faultDone = true
		s.faultFired = true
		if f.Sticky {
			s.ended = true
		}
		s.note(len(p), n, ErrInjected)
		return n, FaultErr(f.ErrKind, false)
	}
	if s.pos == len(s.Data) && s.Plan.EOFWithLast && (f == nil || s.faultDone || f.At != len(s.Data)) {
		s.ended = true
		s.note(len(p), n, io.EOF)
		return n, io.EOF
	}
	s.note(len(p), n, nil)
	return n, nil
}

// WritePlan describes how the Sink treats Write calls.
type WritePlan struct {
	Fault *WriteFault `json:"fault,omitempty"`
}

// WriteFault fails Write call number Call (0-based), or, when Full>=0 is used, every write once Full bytes
// have been accepted.
type WriteFault struct {
	Call   int  `json:"call"`
	Sticky bool `json:"sticky,omitempty"`
	// Short: accept this many bytes of the failing call before returning the error (clipped to len-1).
	Short int `json:"short,omitempty"`
	// Whole: the failing call accepts all its bytes and still returns the error (what a writer does whose data went
	// out but whose flush or sync failed) — allowed by the io.Writer contract.
	Whole bool `json:"whole,omitempty"`
	// Full >0: byte budget ("disk full"): Call is ignored, the crossing write is short, later writes fail.
	Full int `json:"full,omitempty"`
	// ErrKind: "" = sim.ErrInjectedWrite, "short-write" = io.ErrShortWrite, "closed-pipe" = io.ErrClosedPipe.
	ErrKind string `json:"err_kind,omitempty"`
}

// WriteCall records one Write call.
type WriteCall struct {
	Len      int  `json:"len"`
	Accepted int  `json:"acc"`
	Failed   bool `json:"failed,omitempty"`
}

// Sink is the simulated io.Writer.
type Sink struct {
	Plan   WritePlan
	Yield  func(seam string)
	Record bool

	Accepted   []byte
	Calls      int
	Log        []WriteCall
	Hash       uint64
	faultFired bool
	// FirstFailCall is the index of the first failing call (-1 if none); AcceptedAtFirstFail is len(Accepted)
	// right after that call.
	FirstFailCall       int
	AcceptedAtFirstFail int
}

func NewSink(plan WritePlan) *Sink {
	return &Sink{Plan: plan, FirstFailCall: -1, Hash: 1469598103934665603}
}

func (k *Sink) FaultFired() bool { return k.faultFired }

func (k *Sink) Write(p []byte) (int, error) {
	if k.Yield != nil {
		k.Yield("sink.Write")
	}
	idx := k.Calls
	k.Calls++
	fail := false
	acc := len(p)
	if f := k.Plan.Fault; f != nil {
		if f.Full > 0 {
			if len(k.Accepted)+len(p) > f.Full {
				fail = true
				acc = f.Full - len(k.Accepted)
				if acc < 0 {
					acc = 0
				}
			}
		} else if idx == f.Call || (f.Sticky && k.faultFired) {
			fail = true
			acc = 0
			if idx == f.Call && f.Whole {
				acc = len(p)
			} else if idx == f.Call && f.Short > 0 {
				acc = f.Short
				if acc > len(p)-1 {
					acc = len(p) - 1
				}
				if acc < 0 {
					acc = 0
				}
			}
		}
	}
	k.Accepted = append(k.Accepted, p[:acc]...)
	h := k.Hash
	h = (h ^ uint64(len(p)+1)) * 1099511628211
	h = (h ^ uint64(acc+3)) * 1099511628211
	k.Hash = h
	if k.Record {
		k.Log = append(k.Log, WriteCall{Len: len(p), Accepted: acc, Failed: fail})
	}
	if fail {
		k.faultFired = true
		if k.FirstFailCall < 0 {
			k.FirstFailCall = idx
			k.AcceptedAtFirstFail = len(k.Accepted)
		}
		return acc, FaultErr(k.Plan.Fault.ErrKind, true)
	}
	return acc, nil
}

// SeekSource is a Source that also implements io.Seeker (what a bytes.Reader, strings.Reader or *os.File offers): one
// more way the same stored bytes can reach a reader. Seeking past the end is allowed, as it is for those types; the
// next Read then reports end of data.
type SeekSource struct{ *Source }

func (s SeekSource) Seek(offset int64, whence int) (int64, error) {
	var abs int64
	switch whence {
	case io.SeekStart:
		abs = offset
	case io.SeekCurrent:
		abs = int64(s.pos) + offset
	case io.SeekEnd:
		abs = int64(len(s.Data)) + offset
	default:
		return 0, errors.New("sim: invalid whence")
	}
	if abs < 0 {
		return 0, errors.New("sim: negative position")
	}
	s.Seeks++
	if abs > int64(len(s.Data)) {
		s.pos = len(s.Data)
		s.pastEnd = true
	} else {
		s.pos = int(abs)
	}
	return abs, nil
}

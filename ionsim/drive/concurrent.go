package drive

import (
	"bytes"
	"encoding/hex"
	"fmt"
	"math/big"
	"reflect"
	"strings"
	"time"

	"github.com/amzn/ion-go/ion"

	"ionsim/model"
	"ionsim/prng"
	"ionsim/sim"
)

// This file holds the workloads of the concurrent scenario (C18): N independent caller tasks that share
// shared symbol tables (and adjusted views of them), one catalog, the system symbol table and Go types.

// CWorld is the model of the shared objects.
type CWorld struct {
	Tables []model.Shared `json:"tables"`
	// Views are Adjust()ed views of shared tables, themselves shared among tasks.
	Views []CView `json:"views,omitempty"`
	// CatTables lists the tables (indices into Tables) the shared catalog holds; nil = all of them. A subset makes
	// readers fall back from FindExact to FindLatest and to placeholder tables (version skew).
	CatTables []int `json:"cat_tables,omitempty"`
	// Slices are slices of shared tables that tasks pass as they are (tables...) to writers, encoders, builders and
	// Marshal calls; they are built with spare capacity, as slices that were appended to usually have.
	Slices [][]int `json:"slices,omitempty"`
}

type CView struct {
	Table int    `json:"table"`
	MaxID uint64 `json:"max_id"`
}

// IonWorld holds the real shared ion-go objects built from a CWorld.
type IonWorld struct {
	SSTs   []ion.SharedSymbolTable
	Views  []ion.SharedSymbolTable
	Cat    ion.Catalog
	Slices [][]ion.SharedSymbolTable
	// Builder is a symbol table builder that one task keeps using after Built was taken from it with Build(); Built is
	// handed to writers and Marshal calls of other tasks (Build promises an immutable table).
	Builder ion.SymbolTableBuilder
	Built   ion.SymbolTable
	// Tokens is a list of symbol tokens made once from a shared table (ion.NewSymbolTokens) that several tasks pass, in
	// part, to their writers' Annotations.
	Tokens []ion.SymbolToken
	model  CWorld
}

func BuildIonWorld(w CWorld) *IonWorld {
	iw := &IonWorld{model: w}
	iw.SSTs = SharedTables(w.Tables)
	for _, v := range w.Views {
		iw.Views = append(iw.Views, iw.SSTs[v.Table%len(iw.SSTs)].Adjust(v.MaxID))
	}
	for _, idx := range w.Slices {
		sl := make([]ion.SharedSymbolTable, 0, len(idx)+3)
		for _, i := range idx {
			sl = append(sl, iw.SSTs[i%len(iw.SSTs)])
		}
		iw.Slices = append(iw.Slices, sl)
	}
	iw.Builder = ion.NewSymbolTableBuilder(iw.SSTs[0], iw.SSTs[len(iw.SSTs)-1])
	for _, t := range []string{"x", "y", "label", "id", "name", "tags", "pt", "hello", "zed"} {
		iw.Builder.Add(t)
	}
	iw.Built = iw.Builder.Build()
	if toks, err := ion.NewSymbolTokens(ion.NewLocalSymbolTable(iw.SSTs[:1], nil), []string{"a1", "a2", "stage", "x", "dup", "zed"}); err == nil {
		iw.Tokens = toks
	}
	if w.CatTables == nil {
		iw.Cat = ion.NewCatalog(iw.SSTs...)
	} else {
		var in []ion.SharedSymbolTable
		for _, i := range w.CatTables {
			in = append(in, iw.SSTs[i%len(iw.SSTs)])
		}
		iw.Cat = ion.NewCatalog(in...)
	}
	return iw
}

// table resolves an import reference: i >= 0 is SSTs[i], i < 0 is Views[-i-1].
func (w *IonWorld) table(i int) ion.SharedSymbolTable {
	if i < 0 {
		if len(w.Views) == 0 {
			return w.SSTs[0]
		}
		return w.Views[(-i-1)%len(w.Views)]
	}
	return w.SSTs[i%len(w.SSTs)]
}

// SliceRef marks an Imports list that names a shared slice: Imports == []int{SliceRef - k} uses Slices[k] itself.
const SliceRef = -1000

func (w *IonWorld) tables(idx []int) []ion.SharedSymbolTable {
	if len(idx) == 1 && idx[0] <= SliceRef && len(w.Slices) > 0 {
		return w.Slices[(SliceRef-idx[0])%len(w.Slices)]
	}
	var out []ion.SharedSymbolTable
	for _, i := range idx {
		out = append(out, w.table(i))
	}
	return out
}

var digestProbes = []string{"a1", "a4", "a8", "b1", "dup", "c12", "d2", "x", "name", "id", "tags", "$ion", "symbols", "nosuch", ""}

func digestTable(sb *strings.Builder, label string, t ion.SharedSymbolTable) {
	if t == nil {
		fmt.Fprintf(sb, "%s=nil\n", label)
		return
	}
	max := t.MaxID()
	fmt.Fprintf(sb, "%s name=%q v=%d max=%d imports=%d symbols=%q\n", label, t.Name(), t.Version(), max, len(t.Imports()), t.Symbols())
	for _, p := range digestProbes {
		id, ok := t.FindByName(p)
		tok := t.Find(p)
		ts := "nil"
		if tok != nil {
			ts = tokStr(tok)
		}
		fmt.Fprintf(sb, " byname %q -> %d %v find=%s\n", p, id, ok, ts)
	}
	for id := uint64(0); id <= max+2 && id < 64; id++ {
		s, ok := t.FindByID(id)
		fmt.Fprintf(sb, " byid %d -> %q %v\n", id, s, ok)
	}
}

// Digest observes every shared object through its public API only (so an implementation that adds internal,
// properly synchronised caching does not change it).
func (w *IonWorld) Digest() string {
	var sb strings.Builder
	for i, t := range w.SSTs {
		digestTable(&sb, fmt.Sprintf("sst[%d]", i), t)
	}
	for i, t := range w.Views {
		digestTable(&sb, fmt.Sprintf("view[%d]", i), t)
	}
	digestTable(&sb, "system", ion.V1SystemSymbolTable)
	sb.WriteString("tokens")
	for i := range w.Tokens {
		sb.WriteString(" " + tokStr(&w.Tokens[i]))
	}
	sb.WriteByte('\n')
	fmt.Fprintf(&sb, "built max=%d symbols=%q", w.Built.MaxID(), w.Built.Symbols())
	for _, p := range []string{"x", "zed", "a1", "late_1", "late_2", "late_7", "nosuch"} {
		id, ok := w.Built.FindByName(p)
		fmt.Fprintf(&sb, " %s=%d/%v", p, id, ok)
	}
	sb.WriteByte('\n')
	for i, sl := range w.Slices {
		fmt.Fprintf(&sb, "slice[%d] len=%d:", i, len(sl))
		for _, t := range sl {
			fmt.Fprintf(&sb, " %s/%d/%d", t.Name(), t.Version(), t.MaxID())
		}
		sb.WriteByte('\n')
	}
	ident := func(t ion.SharedSymbolTable) string {
		if t == nil {
			return "nil"
		}
		for i, s := range w.SSTs {
			if s == t {
				return fmt.Sprintf("sst[%d]", i)
			}
		}
		return fmt.Sprintf("other(%s/%d/%d)", t.Name(), t.Version(), t.MaxID())
	}
	seen := map[string]bool{}
	for _, mt := range w.model.Tables {
		for v := mt.Version - 1; v <= mt.Version+1; v++ {
			fmt.Fprintf(&sb, "cat exact %s/%d -> %s\n", mt.Name, v, ident(w.Cat.FindExact(mt.Name, v)))
		}
		if !seen[mt.Name] {
			seen[mt.Name] = true
			fmt.Fprintf(&sb, "cat latest %s -> %s\n", mt.Name, ident(w.Cat.FindLatest(mt.Name)))
		}
	}
	fmt.Fprintf(&sb, "cat latest nosuch -> %s\n", ident(w.Cat.FindLatest("nosuch")))
	return sb.String()
}

// QuickDigest is a cheaper observation used at every yield point.
func (w *IonWorld) QuickDigest() string {
	var sb strings.Builder
	one := func(t ion.SharedSymbolTable) {
		max := t.MaxID()
		s1, ok1 := t.FindByID(1)
		sl, okl := t.FindByID(max)
		sn, okn := t.FindByID(max + 1)
		fmt.Fprintf(&sb, "%s/%d/%d/%d|%q%v|%q%v|%q%v;", t.Name(), t.Version(), max, len(t.Symbols()), s1, ok1, sl, okl, sn, okn)
	}
	for _, t := range w.SSTs {
		one(t)
	}
	for _, t := range w.Views {
		one(t)
	}
	one(ion.V1SystemSymbolTable)
	for _, mt := range w.model.Tables {
		t := w.Cat.FindExact(mt.Name, mt.Version)
		l := w.Cat.FindLatest(mt.Name)
		if t == nil || l == nil {
			sb.WriteString("cat-miss;")
			continue
		}
		fmt.Fprintf(&sb, "%d/%d;", t.MaxID(), l.Version())
	}
	return sb.String()
}

// ---------------------------------------------------------------------------------------------------------
// shared Go types

type CPoint struct {
	X     int    `ion:"x"`
	Y     int    `ion:"y"`
	Label string `ion:"label,omitempty"`
}

type CRecord struct {
	ID     int64          `ion:"id"`
	Name   string         `ion:"name"`
	Tags   []string       `ion:"tags"`
	Pt     *CPoint        `ion:"pt"`
	Attrs  map[string]int `ion:"attrs"`
	When   *ion.Timestamp `ion:"when"`
	Amount *ion.Decimal   `ion:"amount"`
	Raw    []byte         `ion:"raw"`
	Sym    string         `ion:"sym,symbol"`
	Any    interface{}    `ion:"any"`
	Flag   bool           `ion:"flag"`
	Ratio  float64        `ion:"ratio"`
	Big    *big.Int       `ion:"big"`
}

type CNested struct {
	CPoint
	Recs  []CRecord         `ion:"recs"`
	Index map[string]CPoint `ion:"index"`
	Sx    []interface{}     `ion:"sx,sexp"`
	Text  []byte            `ion:"text,clob"`
}

type CAnnotated struct {
	Value CPoint
	Ann   []ion.SymbolToken `ion:",annotations"`
}

type CAnnotatedRec struct {
	Value *CRecord
	Ann   []ion.SymbolToken `ion:",annotations"`
}

var cWords = []string{"a1", "a4", "b1", "dup", "x", "y", "name", "id", "tags", "hello", "k9", "zed", "c12", "d2", "q_1", "é", "a b", "$ion", "label"}

func cWord(r *prng.Rand) string { return cWords[r.Intn(len(cWords))] }

func cPoint(r *prng.Rand) CPoint {
	p := CPoint{X: r.Intn(2000) - 1000, Y: r.Intn(7)}
	if r.Bool() {
		p.Label = cWord(r)
	}
	return p
}

func cRecord(r *prng.Rand) CRecord {
	rec := CRecord{ID: int64(r.Uint64() >> uint(r.Intn(63))), Name: cWord(r), Flag: r.Bool(), Ratio: float64(r.Intn(1000)) / 8}
	for k := r.Intn(4); k > 0; k-- {
		rec.Tags = append(rec.Tags, cWord(r))
	}
	if r.Bool() {
		p := cPoint(r)
		rec.Pt = &p
	}
	if r.Bool() {
		rec.Attrs = map[string]int{cWord(r): r.Intn(100)} // at most one key: MarshalBinary does not sort maps
	}
	if r.Bool() {
		tm := time.Date(1990+r.Intn(50), time.Month(1+r.Intn(12)), 1+r.Intn(28), r.Intn(24), r.Intn(60), r.Intn(60), 0, time.UTC)
		ts := ion.NewTimestamp(tm, ion.TimestampPrecisionSecond, ion.TimezoneUTC)
		rec.When = &ts
	}
	if r.Bool() {
		rec.Amount = ion.NewDecimalInt(int64(r.Intn(100000)) - 50000)
	}
	if r.Bool() {
		rec.Raw = []byte(cWord(r))
	}
	rec.Sym = cWord(r)
	switch r.Intn(5) {
	case 0:
		rec.Any = int64(r.Intn(100))
	case 1:
		rec.Any = cWord(r)
	case 2:
		rec.Any = []interface{}{cWord(r), int64(r.Intn(9)), true}
	case 3:
		rec.Any = map[string]interface{}{cWord(r): cWord(r)}
	}
	if r.Chance(1, 3) {
		rec.Big = new(big.Int).Lsh(big.NewInt(int64(r.Intn(1000))+1), uint(r.Intn(90)))
	}
	return rec
}

// CTypeCount is the number of shared Go types GoValue / GoTarget know.
const CTypeCount = 20

// CDup has two fields with the same Ion name: marshalling it fails (ion-go panics, the task recovers), which must not
// leave anything behind for the next user of the package.
type CDup struct {
	A string `ion:"name"`
	B string `ion:"name"`
	C int    `ion:"age"`
}

// CNode is a chain: values of this type nest as deep as the chain is long.
type CNode struct {
	V    int    `ion:"v"`
	Next *CNode `ion:"next"`
}

// CTemp marshals itself through a pointer-receiver method, so whether the method is used depends on whether the
// value the encoder meets is addressable (slice element, pointer) or not (map value, struct passed by value).
type CTemp struct {
	Deg int `ion:"deg"`
}

func (t *CTemp) MarshalIon(w ion.Writer) error { return w.WriteString(fmt.Sprintf("%dC", t.Deg)) }

type CTempHolder struct {
	T CTemp   `ion:"t"`
	P *CTemp  `ion:"p"`
	L []CTemp `ion:"l"`
}

// Annotation wrappers over several value kinds (the documented two-field form).
type CAnnInt struct {
	Value int
	Ann   []ion.SymbolToken `ion:",annotations"`
}
type CAnnInt64 struct {
	Value int64
	Ann   []ion.SymbolToken `ion:",annotations"`
}
type CAnnF32 struct {
	Value float32
	Ann   []ion.SymbolToken `ion:",annotations"`
}
type CAnnF64 struct {
	Value float64
	Ann   []ion.SymbolToken `ion:",annotations"`
}
type CAnnStr struct {
	Value string
	Ann   []ion.SymbolToken `ion:",annotations"`
}
type CAnnSlice struct {
	Value []int
	Ann   []ion.SymbolToken `ion:",annotations"`
}
type CAnnArr struct {
	Value [2]int
	Ann   []ion.SymbolToken `ion:",annotations"`
}
type CAnnAny struct {
	Value interface{}
	Ann   []ion.SymbolToken `ion:",annotations"`
}

func cAnn(r *prng.Rand) []ion.SymbolToken {
	var out []ion.SymbolToken
	for k := r.Range(1, 2); k > 0; k-- {
		out = append(out, ion.NewSymbolTokenFromString(cWord(r)))
	}
	return out
}

// GoValue builds a seeded value of the shared type number typ.
func GoValue(typ int, r *prng.Rand) interface{} {
	if typ >= DynBase {
		return dynValue(typ, r)
	}
	switch typ % CTypeCount {
	case 0:
		return cPoint(r)
	case 1:
		rec := cRecord(r)
		return &rec
	case 2:
		n := CNested{CPoint: cPoint(r)}
		for k := r.Intn(3); k > 0; k-- {
			n.Recs = append(n.Recs, cRecord(r))
		}
		if r.Bool() {
			n.Index = map[string]CPoint{cWord(r): cPoint(r)}
		}
		n.Sx = []interface{}{cWord(r), int64(r.Intn(5))}
		if r.Bool() {
			n.Text = []byte(cWord(r))
		}
		return n
	case 3:
		a := CAnnotated{Value: cPoint(r)}
		for k := r.Intn(3); k > 0; k-- {
			a.Ann = append(a.Ann, ion.NewSymbolTokenFromString(cWord(r)))
		}
		return a
	case 4:
		var out []CRecord
		for k := r.Intn(3) + 1; k > 0; k-- {
			out = append(out, cRecord(r))
		}
		return out
	case 5:
		return map[string]interface{}{cWord(r): []interface{}{int64(r.Intn(50)), cWord(r), cPoint(r)}}
	case 6:
		return map[string]CTemp{cWord(r): {Deg: r.Intn(90)}} // map values are not addressable
	case 7:
		return []CTemp{{Deg: r.Intn(90)}, {Deg: r.Intn(90)}} // slice elements are
	case 8:
		return &CTemp{Deg: r.Intn(90)}
	case 9:
		h := CTempHolder{T: CTemp{Deg: r.Intn(90)}, P: &CTemp{Deg: r.Intn(90)}, L: []CTemp{{Deg: r.Intn(90)}}}
		if r.Bool() {
			return h // by value: field T is not addressable
		}
		return &h
	case 10:
		return CAnnInt{Value: r.Intn(1000), Ann: cAnn(r)}
	case 11:
		return CAnnInt64{Value: int64(r.Intn(1000)), Ann: cAnn(r)}
	case 12:
		return CAnnF32{Value: float32(r.Intn(64)) / 4, Ann: cAnn(r)}
	case 13:
		return CAnnF64{Value: float64(r.Intn(64)) / 4, Ann: cAnn(r)}
	case 14:
		return CAnnStr{Value: cWord(r), Ann: cAnn(r)}
	case 15:
		return CAnnSlice{Value: []int{r.Intn(9), r.Intn(9)}, Ann: cAnn(r)}
	case 16:
		return CAnnArr{Value: [2]int{r.Intn(9), r.Intn(9)}, Ann: cAnn(r)}
	case 17:
		return CAnnAny{Value: int64(r.Intn(9)), Ann: cAnn(r)}
	case 19:
		return CDup{A: cWord(r), B: cWord(r), C: r.Intn(9)}
	default:
		var head *CNode
		for d := r.Range(550, 900); d > 0; d-- {
			head = &CNode{V: d, Next: head}
		}
		return head
	}
}

// Dynamic struct types: typ >= DynBase names the type built by reflect.StructOf from the field menu below,
// selected by the bits of typ-DynBase. Identical selections are the identical reflect.Type, so tasks that use the
// same number share the type, and every run index can bring types no earlier index has touched.
const DynBase = 1000

// DynField describes one field of a dynamic type.
type DynField struct {
	Go   string // Go field name
	Tag  string // ion field name
	Kind string // int | string | strings | point | ppoint | map | bool | float | bytes | any | symbol
}

var dynMenu = []DynField{
	{"Fa", "a1", "int"}, {"Fb", "name", "string"}, {"Fc", "tags", "strings"}, {"Fd", "pt", "point"}, {"Fe", "dup", "ppoint"},
	{"Ff", "attrs", "map"}, {"Fg", "flag", "bool"}, {"Fh", "ratio", "float"}, {"Fi", "raw", "bytes"}, {"Fj", "any", "any"},
	{"Fk", "sym", "symbol"}, {"Fl", "x", "int"}, {"Fm", "c12", "string"}, {"Fn", "zed", "int"},
}

// DynFields returns the fields of dynamic type number typ (at least one).
func DynFields(typ int) []DynField {
	sel := uint(typ - DynBase)
	var out []DynField
	for i, f := range dynMenu {
		if sel>>uint(i)&1 == 1 {
			out = append(out, f)
		}
	}
	if len(out) == 0 {
		out = append(out, dynMenu[0])
	}
	return out
}

func dynGoType(kind string) reflect.Type {
	switch kind {
	case "int":
		return reflect.TypeOf(int(0))
	case "string", "symbol":
		return reflect.TypeOf("")
	case "strings":
		return reflect.TypeOf([]string(nil))
	case "point":
		return reflect.TypeOf(CPoint{})
	case "ppoint":
		return reflect.TypeOf((*CPoint)(nil))
	case "map":
		return reflect.TypeOf(map[string]int(nil))
	case "bool":
		return reflect.TypeOf(false)
	case "float":
		return reflect.TypeOf(float64(0))
	case "bytes":
		return reflect.TypeOf([]byte(nil))
	default:
		return reflect.TypeOf((*interface{})(nil)).Elem()
	}
}

// DynType builds (or finds: reflect caches identical struct types) the dynamic type number typ.
func DynType(typ int) reflect.Type {
	var fs []reflect.StructField
	for _, f := range DynFields(typ) {
		tag := `ion:"` + f.Tag + `"`
		if f.Kind == "symbol" {
			tag = `ion:"` + f.Tag + `,symbol"`
		}
		fs = append(fs, reflect.StructField{Name: f.Go, Type: dynGoType(f.Kind), Tag: reflect.StructTag(tag)})
	}
	return reflect.StructOf(fs)
}

func dynValue(typ int, r *prng.Rand) interface{} {
	t := DynType(typ)
	v := reflect.New(t).Elem()
	for i, f := range DynFields(typ) {
		fv := v.Field(i)
		switch f.Kind {
		case "int":
			fv.SetInt(int64(r.Intn(5000)) - 2500)
		case "string", "symbol":
			fv.SetString(cWord(r))
		case "strings":
			var ss []string
			for k := r.Intn(3); k > 0; k-- {
				ss = append(ss, cWord(r))
			}
			fv.Set(reflect.ValueOf(ss))
		case "point":
			fv.Set(reflect.ValueOf(cPoint(r)))
		case "ppoint":
			if r.Bool() {
				p := cPoint(r)
				fv.Set(reflect.ValueOf(&p))
			}
		case "map":
			if r.Bool() {
				fv.Set(reflect.ValueOf(map[string]int{cWord(r): r.Intn(9)}))
			}
		case "bool":
			fv.SetBool(r.Bool())
		case "float":
			fv.SetFloat(float64(r.Intn(64)) / 4)
		case "bytes":
			fv.SetBytes([]byte(cWord(r)))
		default:
			fv.Set(reflect.ValueOf(int64(r.Intn(9))))
		}
	}
	if r.Bool() {
		return v.Interface()
	}
	p := reflect.New(t)
	p.Elem().Set(v)
	return p.Interface()
}

// GoTarget returns a fresh Unmarshal target of the shared type number typ.
func GoTarget(typ int) interface{} {
	if typ >= DynBase {
		return reflect.New(DynType(typ)).Interface()
	}
	switch typ % CTypeCount {
	case 0:
		return new(CPoint)
	case 1:
		return new(CRecord)
	case 2:
		return new(CNested)
	case 3:
		return new(CAnnotatedRec)
	case 4:
		return new([]CRecord)
	case 5:
		return new(map[string]interface{})
	case 6:
		return new(map[string]CTemp)
	case 7:
		return new([]CTemp)
	case 8:
		return new(CTemp)
	case 9:
		return new(CTempHolder)
	case 10:
		return new(CAnnInt)
	case 11:
		return new(CAnnInt64)
	case 12:
		return new(CAnnF32)
	case 13:
		return new(CAnnF64)
	case 14:
		return new(CAnnStr)
	case 15:
		return new(CAnnSlice)
	case 16:
		return new(CAnnArr)
	case 17:
		return new(CAnnAny)
	case 19:
		return new(CDup)
	default:
		return new(CNode)
	}
}

// ---------------------------------------------------------------------------------------------------------
// tasks

// CTableOp is one call on a shared table / catalog / symbol-token helper.
type CTableOp struct {
	Op    string `json:"op"` // string | writeto | find | byid | adjust | builder | exact | latest | token | tokensid | lstfind
	Table int    `json:"table"`
	Text  string `json:"text,omitempty"`
	N     uint64 `json:"n,omitempty"`
}

// CTask is one independent caller task. Everything it needs is explicit (replayable).
type CTask struct {
	Kind string `json:"kind"` // write | read | decode | encode | marshal | unmarshal | tables
	// write, encode, marshal: writer configuration
	Writer     string   `json:"writer,omitempty"` // text | pretty | binary | binary-lst
	Imports    []int    `json:"imports,omitempty"`
	LSTSymbols []string `json:"lst_symbols,omitempty"`
	Ops        []WOp    `json:"ops,omitempty"`
	// read, decode, unmarshal
	Data []byte       `json:"data,omitempty"`
	Plan sim.ReadPlan `json:"plan,omitempty"`
	// encode, marshal, unmarshal: shared Go type and value seed
	Type    int    `json:"type,omitempty"`
	ValSeed uint64 `json:"val_seed,omitempty"`
	Count   int    `json:"count,omitempty"`
	// tables
	TOps []CTableOp `json:"tops,omitempty"`
}

type yieldCatalog struct {
	inner ion.Catalog
	yield func(string)
}

func (c *yieldCatalog) FindExact(name string, version int) ion.SharedSymbolTable {
	if c.yield != nil {
		c.yield("cat.FindExact")
	}
	return c.inner.FindExact(name, version)
}

func (c *yieldCatalog) FindLatest(name string) ion.SharedSymbolTable {
	if c.yield != nil {
		c.yield("cat.FindLatest")
	}
	return c.inner.FindLatest(name)
}

// nthType varies the static types across the values of one task and keeps a dynamic type as it is.
func nthType(typ, i int) int {
	if typ >= DynBase {
		return typ
	}
	return typ + i
}

func errStr(err error) string {
	if err == nil {
		return ""
	}
	return err.Error()
}

func (w *IonWorld) writer(t CTask, sink *sim.Sink) ion.Writer {
	switch t.Writer {
	case "text":
		return ion.NewTextWriterOpts(sink, 0, w.tables(t.Imports)...)
	case "pretty":
		return ion.NewTextWriterOpts(sink, ion.TextWriterPretty, w.tables(t.Imports)...)
	case "binary-lst":
		return ion.NewBinaryWriterLST(sink, ion.NewLocalSymbolTable(w.tables(t.Imports), append([]string(nil), t.LSTSymbols...)))
	case "binary-built":
		return ion.NewBinaryWriterLST(sink, w.Built)
	default:
		return ion.NewBinaryWriter(sink, w.tables(t.Imports)...)
	}
}

// scribble modifies a decoded value in place: every map gets a key, every slice element is overwritten. The value belongs
// to the caller of Decode, so nobody else may ever see this.
func scribble(v interface{}) {
	switch x := v.(type) {
	case map[string]interface{}:
		for _, e := range x {
			scribble(e)
		}
		x["scribbled-by-its-owner"] = true
	case []interface{}:
		for i := range x {
			scribble(x[i])
			x[i] = "scribbled"
		}
	case []byte:
		for i := range x {
			x[i] = '#'
		}
	}
}

func reencode(v interface{}) string {
	var buf bytes.Buffer
	e := ion.NewEncoderOpts(ion.NewTextWriterOpts(&buf, ion.TextWriterQuietFinish), ion.EncodeSortMaps)
	err := e.Encode(v)
	if err == nil {
		err = e.Finish()
	}
	return buf.String() + " err=" + errStr(err)
}

// RunCTask runs one task against the shared world and returns its output as a comparable string. yield may
// be nil (free-running). Panics of ion-go are recovered and become part of the output; the Spin sentinel too.
func RunCTask(w *IonWorld, t CTask, yield func(string)) (out string) {
	var sb strings.Builder
	defer func() {
		if p := recover(); p != nil {
			if sp, ok := p.(sim.Spin); ok {
				out = sb.String() + "\nSPIN " + sp.String()
				return
			}
			out = sb.String() + "\nPANIC " + fmt.Sprint(p) + " at " + ionFrame()
		}
	}()
	cat := ion.Catalog(&yieldCatalog{inner: w.Cat, yield: yield})
	switch t.Kind {
	case "write":
		sink := sim.NewSink(sim.WritePlan{})
		sink.Yield = yield
		wr := w.writer(t, sink)
		for i, op := range t.Ops {
			if op.Op == "annots-shared" {
				// the first n of the world's token list, as they are, then one more annotation of the task's own
				n := int(op.T) % (len(w.Tokens) + 1)
				if err := wr.Annotations(w.Tokens[:n]...); err != nil {
					fmt.Fprintf(&sb, "op %d %s: %s\n", i, op.Op, err.Error())
				}
				continue
			}
			if err := Apply(wr, op); err != nil {
				fmt.Fprintf(&sb, "op %d %s: %s\n", i, op.Op, err.Error())
			}
		}
		fmt.Fprintf(&sb, "finish: %s\n", errStr(wr.Finish()))
		sb.WriteString(hex.EncodeToString(sink.Accepted))
	case "read":
		src := sim.NewSource(t.Data, t.Plan)
		src.Yield = yield
		rc := ReadCase{Data: t.Data, Plan: t.Plan, Prog: Full, KeepMaxID: true, Cat: cat}
		oc := RunReadSrc(rc, src, nil)
		sb.WriteString(oc.Key())
		fmt.Fprintf(&sb, "\nmaxids=%v", oc.MaxIDs)
	case "decode":
		src := sim.NewSource(t.Data, t.Plan)
		src.Yield = yield
		d := ion.NewDecoder(ion.NewReaderCat(src, cat))
		for i := 0; i < len(t.Data)+4; i++ {
			v, err := d.Decode()
			if err != nil {
				fmt.Fprintf(&sb, "end: %s\n", err.Error())
				break
			}
			sb.WriteString(reencode(v))
			sb.WriteByte('\n')
			scribble(v) // what a caller may do with a value it was handed: it owns it
		}
	case "unmarshal":
		n := t.Count
		if n < 1 {
			n = 1
		}
		if t.Plan.Name == "direct" {
			// ion.Unmarshal builds its own catalog from the shared tables
			tg := GoTarget(t.Type)
			err := ion.Unmarshal(t.Data, tg, w.tables(t.Imports)...)
			fmt.Fprintf(&sb, "%s uerr=%s\n", reencode(tg), errStr(err))
			break
		}
		src := sim.NewSource(t.Data, t.Plan)
		src.Yield = yield
		d := ion.NewDecoder(ion.NewReaderCat(src, cat))
		for i := 0; i < n; i++ {
			tg := GoTarget(t.Type)
			err := d.DecodeTo(tg)
			fmt.Fprintf(&sb, "%s uerr=%s\n", reencode(tg), errStr(err))
			if err != nil {
				break
			}
		}
	case "encode":
		sink := sim.NewSink(sim.WritePlan{})
		sink.Yield = yield
		e := ion.NewEncoderOpts(w.writer(t, sink), ion.EncodeSortMaps)
		r := prng.New(t.ValSeed)
		n := t.Count
		if n < 1 {
			n = 1
		}
		for i := 0; i < n; i++ {
			if err := e.Encode(GoValue(nthType(t.Type, i), r)); err != nil {
				fmt.Fprintf(&sb, "encode %d: %s\n", i, err.Error())
			}
		}
		fmt.Fprintf(&sb, "finish: %s\n", errStr(e.Finish()))
		sb.WriteString(hex.EncodeToString(sink.Accepted))
	case "marshal":
		r := prng.New(t.ValSeed)
		n := t.Count
		if n < 1 {
			n = 1
		}
		for i := 0; i < n; i++ {
			v := GoValue(nthType(t.Type, i), r)
			var b []byte
			var err error
			switch t.Writer {
			case "text", "pretty":
				b, err = ion.MarshalText(v)
			case "binary-built":
				b, err = ion.MarshalBinaryLST(v, w.Built)
			case "binary-lst":
				b, err = ion.MarshalBinaryLST(v, ion.NewLocalSymbolTable(w.tables(t.Imports), append([]string(nil), t.LSTSymbols...)))
			default:
				b, err = ion.MarshalBinary(v, w.tables(t.Imports)...)
			}
			fmt.Fprintf(&sb, "%s err=%s\n", hex.EncodeToString(b), errStr(err))
			if yield != nil {
				yield("marshal.done")
			}
		}
	case "builder":
		// the owner of the world's builder goes on adding symbols after Build() was taken (at most one such task per set)
		for i := 0; i < t.Count; i++ {
			id, fresh := w.Builder.Add(fmt.Sprintf("late_%d", i))
			id2, ok := w.Builder.FindByName("x")
			fmt.Fprintf(&sb, "%d %v %d %v max=%d\n", id, fresh, id2, ok, w.Builder.MaxID())
			if yield != nil {
				yield("builder.Add")
			}
		}
		sb.WriteString(w.Builder.Build().String())
	case "tables":
		for i, op := range t.TOps {
			tb := w.table(op.Table)
			fmt.Fprintf(&sb, "%d %s: ", i, op.Op)
			switch op.Op {
			case "string":
				sb.WriteString(tb.String())
			case "writeto":
				sink := sim.NewSink(sim.WritePlan{})
				sink.Yield = yield
				wr := ion.NewTextWriter(sink)
				err := tb.WriteTo(wr)
				if err == nil {
					err = wr.Finish()
				}
				fmt.Fprintf(&sb, "%s err=%s", sink.Accepted, errStr(err))
			case "find":
				id, ok := tb.FindByName(op.Text)
				tok := tb.Find(op.Text)
				ts := "nil"
				if tok != nil {
					ts = fmt.Sprintf("%s#%d", tokStr(tok), tok.LocalSID)
				}
				fmt.Fprintf(&sb, "%d %v %s", id, ok, ts)
			case "byid":
				s, ok := tb.FindByID(op.N)
				fmt.Fprintf(&sb, "%q %v", s, ok)
			case "adjust":
				a := tb.Adjust(op.N)
				s, ok := a.FindByID(op.N)
				id, ok2 := a.FindByName(op.Text)
				fmt.Fprintf(&sb, "max=%d symbols=%q last=%q %v %d %v orig-max=%d", a.MaxID(), a.Symbols(), s, ok, id, ok2, tb.MaxID())
			case "builder":
				b := ion.NewSymbolTableBuilder(tb, w.table(op.Table+1))
				id1, new1 := b.Add(op.Text)
				id2, new2 := b.Add("fresh_" + op.Text)
				if yield != nil {
					yield("builder.mid")
				}
				lt := b.Build()
				s, ok := lt.FindByID(op.N)
				fmt.Fprintf(&sb, "%d %v %d %v max=%d byid=%q %v %s", id1, new1, id2, new2, lt.MaxID(), s, ok, lt.String())
			case "lstfind":
				imps := []ion.SharedSymbolTable{tb, w.table(op.Table + 1)}
				if op.N%2 == 1 {
					imps[0], imps[1] = imps[1], imps[0] // the same shared table at another offset
				}
				lt := ion.NewLocalSymbolTable(imps, []string{op.Text, "zz"})
				id, ok := lt.FindByName(op.Text)
				s, ok2 := lt.FindByID(op.N)
				fmt.Fprintf(&sb, "%d %v %q %v max=%d", id, ok, s, ok2, lt.MaxID())
				// Find hands out a token; the caller keeps it across its next I/O call and uses it afterwards
				var toks []*ion.SymbolToken
				for _, name := range []string{op.Text, "a1", "b1", "dup", "d2", "zz"} {
					toks = append(toks, lt.Find(name))
				}
				if yield != nil {
					yield("lstfind.hold")
				}
				for _, tk := range toks {
					if tk == nil {
						sb.WriteString(" nil")
					} else {
						fmt.Fprintf(&sb, " %s#%d", tokStr(tk), tk.LocalSID)
					}
				}
			case "exact":
				x := cat.FindExact(op.Text, int(op.N))
				if x == nil {
					sb.WriteString("nil")
				} else {
					fmt.Fprintf(&sb, "%s/%d/%d", x.Name(), x.Version(), x.MaxID())
				}
			case "latest":
				x := cat.FindLatest(op.Text)
				if x == nil {
					sb.WriteString("nil")
				} else {
					fmt.Fprintf(&sb, "%s/%d/%d", x.Name(), x.Version(), x.MaxID())
				}
			case "token":
				tok, err := ion.NewSymbolToken(tb, op.Text)
				fmt.Fprintf(&sb, "%s err=%s", tokStr(&tok), errStr(err))
			case "tokensid":
				tok, err := ion.NewSymbolTokenBySID(tb, int64(op.N))
				fmt.Fprintf(&sb, "%s err=%s", tokStr(&tok), errStr(err))
			case "system":
				s, ok := ion.V1SystemSymbolTable.FindByID(op.N % 12)
				id, ok2 := ion.V1SystemSymbolTable.FindByName(op.Text)
				fmt.Fprintf(&sb, "%q %v %d %v %s", s, ok, id, ok2, ion.V1SystemSymbolTable.String())
			}
			sb.WriteByte('\n')
		}
	default:
		sb.WriteString("unknown task kind " + t.Kind)
	}
	return sb.String()
}

package render

import (
	"encoding/binary"
	"math"
	"math/big"
	"strconv"

	"ionsim/model"
	"ionsim/prng"
)

// BinOpts are the encoding freedoms of the binary renderer. With R == nil the canonical (shortest) form
// is produced.
type BinOpts struct {
	R            *prng.Rand
	PadVarUInt   bool // over-padded VarUInts (leading 00 octets)
	LongLen      bool // L=14 + VarUInt even when the length would fit inline
	LeadingZeros bool // leading zero octets in int magnitudes / symbol IDs
	NOPs         bool // NOP pads between values
	Float32      bool // 32-bit floats when lossless (otherwise always 64-bit)
	Ordered      bool // L=1 structs when field IDs happen to be ascending
	RepeatBVM    bool // extra version marker (followed by a re-declared table) between top-level values
	SplitLST     bool // second, appending local symbol table midway
	// Auto: the renderer plans local symbol tables itself from the symbol texts used.
	Auto bool
}

// SwarmBin draws a random subset of encoding freedoms.
func SwarmBin(r *prng.Rand) BinOpts {
	o := BinOpts{R: r, Auto: true}
	if r.Chance(1, 4) {
		o.Float32 = true
		return o // near-canonical
	}
	o.PadVarUInt = r.Chance(1, 3)
	o.LongLen = r.Chance(1, 3)
	o.LeadingZeros = r.Chance(1, 3)
	o.NOPs = r.Chance(1, 3)
	o.Float32 = r.Chance(2, 3)
	o.Ordered = r.Chance(1, 2)
	o.RepeatBVM = r.Chance(1, 6)
	o.SplitLST = r.Chance(1, 4)
	return o
}

type binEnc struct {
	o     BinOpts
	local map[string]int64 // text -> ID for auto mode
	next  int64
}

func (e *binEnc) chance(on bool, num, den int) bool {
	return on && e.o.R != nil && e.o.R.Chance(num, den)
}

func sysID(text string) int64 {
	for i, s := range model.SystemSymbols {
		if s == text {
			return int64(i + 1)
		}
	}
	return 0
}

func (e *binEnc) resolve(s model.Sym) int64 {
	if !s.HasText || s.ByID {
		return s.SID
	}
	if id := sysID(s.Text); id != 0 {
		return id
	}
	if id, ok := e.local[s.Text]; ok {
		return id
	}
	panic("render/bin: unresolved symbol text " + strconv.Quote(s.Text))
}

func varUInt(v uint64) []byte {
	var tmp [10]byte
	i := len(tmp) - 1
	tmp[i] = byte(v&0x7f) | 0x80
	v >>= 7
	for v > 0 {
		i--
		tmp[i] = byte(v & 0x7f)
		v >>= 7
	}
	return append([]byte(nil), tmp[i:]...)
}

func varInt(v int64, negZero bool) []byte {
	neg := v < 0 || negZero
	var mag uint64
	if v < 0 {
		mag = uint64(-v)
	} else {
		mag = uint64(v)
	}
	// split into 7-bit groups, first group has 6 bits
	var groups []byte
	groups = append(groups, byte(mag&0x7f))
	mag >>= 7
	for mag > 0 {
		groups = append(groups, byte(mag&0x7f))
		mag >>= 7
	}
	// groups is little-endian; the most significant group must fit in 6 bits
	if groups[len(groups)-1]&0x40 != 0 {
		groups = append(groups, 0)
	}
	out := make([]byte, len(groups))
	for i := range groups {
		out[i] = groups[len(groups)-1-i]
	}
	if neg {
		out[0] |= 0x40
	}
	out[len(out)-1] |= 0x80
	return out
}

func (e *binEnc) varUIntPadded(v uint64) []byte {
	b := varUInt(v)
	if e.chance(e.o.PadVarUInt, 1, 4) {
		n := e.o.R.Range(1, 2)
		if len(b)+n <= 9 {
			b = append(make([]byte, n), b...)
		}
	}
	return b
}

// signed magnitude Int field
func intField(v *big.Int, negZero bool) []byte {
	if v.Sign() == 0 {
		if negZero {
			return []byte{0x80}
		}
		return nil
	}
	mag := new(big.Int).Abs(v).Bytes()
	if mag[0]&0x80 != 0 {
		mag = append([]byte{0}, mag...)
	}
	if v.Sign() < 0 {
		mag[0] |= 0x80
	}
	return mag
}

// header writes tag (+ VarUInt length) for a payload of n octets.
func (e *binEnc) header(x *buf, t byte, n int, depth int, allowLong bool) {
	off := len(x.b)
	if n < 14 && !(allowLong && e.chance(e.o.LongLen, 1, 5)) {
		x.put(RTag, depth, t<<4|byte(n))
		x.site("tag", off, 1, depth, int64(t)<<8|int64(n))
		return
	}
	x.put(RTag, depth, t<<4|14)
	x.site("tag", off, 1, depth, int64(t)<<8|14)
	lb := e.varUIntPadded(uint64(n))
	lo := len(x.b)
	x.putc(RLen, depth, lb...)
	x.site("len", lo, len(lb), depth, int64(n))
}

func (e *binEnc) nop(x *buf, depth int) {
	n := e.o.R.Intn(4)
	if e.o.R.Chance(1, 8) {
		n = e.o.R.Range(14, 20)
	}
	off := len(x.b)
	if n < 14 {
		x.put(RNop, depth, byte(n))
	} else {
		x.put(RNop, depth, 0x0e)
		x.putc(RNop, depth, varUInt(uint64(n))...)
	}
	for i := 0; i < n; i++ {
		x.putc(RNop, depth, byte(e.o.R.Intn(256)))
	}
	x.site("nop", off, len(x.b)-off, depth, int64(n))
}

var nullTag = map[model.Kind]byte{model.Null: 0, model.Bool: 1, model.Int: 2, model.Float: 4, model.Decimal: 5, model.Timestamp: 6,
	model.Symbol: 7, model.String: 8, model.Clob: 9, model.Blob: 10, model.List: 11, model.Sexp: 12, model.Struct: 13}

// value encodes a value (with its annotation wrapper) into a fresh buf; depth is the container depth.
func (e *binEnc) value(v *model.Value, depth int) *buf {
	inner := e.bare(v, depth)
	if len(v.Annots) == 0 {
		inner.site("value", 0, len(inner.b), depth, int64(v.Kind))
		return inner
	}
	var ids buf
	for _, a := range v.Annots {
		off := len(ids.b)
		b := e.varUIntPadded(uint64(e.resolve(a)))
		ids.putc(RAnnotID, depth, b...)
		ids.site("annot-id", off, len(b), depth, e.resolve(a))
	}
	al := e.varUIntPadded(uint64(len(ids.b)))
	x := &buf{}
	total := len(al) + len(ids.b) + len(inner.b)
	e.header(x, 14, total, depth, true)
	alo := len(x.b)
	x.putc(RAnnotLen, depth, al...)
	x.site("annot-len", alo, len(al), depth, int64(len(ids.b)))
	x.add(&ids)
	wo := len(x.b)
	// wrapped value bytes are continuation bytes of the wrapper
	for i := range inner.m {
		inner.m[i].Cont = true
	}
	x.add(inner)
	x.site("annot-wrapped", wo, len(inner.b), depth, int64(v.Kind))
	x.site("annot-wrapper", 0, len(x.b), depth, int64(len(v.Annots)))
	x.site("value", 0, len(x.b), depth, int64(v.Kind))
	return x
}

func (e *binEnc) bare(v *model.Value, depth int) *buf {
	x := &buf{}
	if v.IsNull || v.Kind == model.Null {
		t := nullTag[v.Kind]
		x.put(RTag, depth, t<<4|15)
		x.site("tag", 0, 1, depth, int64(t)<<8|15)
		return x
	}
	switch v.Kind {
	case model.Bool:
		b := byte(0x10)
		if v.Bool {
			b = 0x11
		}
		x.put(RTag, depth, b)
		x.site("tag", 0, 1, depth, int64(1)<<8|int64(b&15))
	case model.Int:
		t := byte(2)
		if v.Int.Sign() < 0 {
			t = 3
		}
		mag := new(big.Int).Abs(v.Int).Bytes()
		if len(mag) > 0 && e.chance(e.o.LeadingZeros, 1, 4) {
			mag = append(make([]byte, e.o.R.Range(1, 3)), mag...)
		}
		if len(mag) == 0 && t == 2 && e.chance(e.o.LeadingZeros, 1, 4) {
			mag = []byte{0}
		}
		e.header(x, t, len(mag), depth, true)
		po := len(x.b)
		x.putc(RPayload, depth, mag...)
		x.site("int-mag", po, len(mag), depth, int64(t))
	case model.Float:
		f := v.Float()
		switch {
		case v.Bits == 0 && !(e.o.R != nil && e.o.R.Chance(1, 4)):
			x.put(RTag, depth, 0x40)
			x.site("tag", 0, 1, depth, 4<<8)
		case e.o.Float32 && !math.IsNaN(f) && float64(float32(f)) == f && math.Float64bits(float64(float32(f))) == v.Bits:
			x.put(RTag, depth, 0x44)
			x.site("tag", 0, 1, depth, 4<<8|4)
			var b [4]byte
			binary.BigEndian.PutUint32(b[:], math.Float32bits(float32(f)))
			x.putc(RPayload, depth, b[:]...)
			x.site("float", 1, 4, depth, 4)
		default:
			x.put(RTag, depth, 0x48)
			x.site("tag", 0, 1, depth, 4<<8|8)
			var b [8]byte
			binary.BigEndian.PutUint64(b[:], v.Bits)
			x.putc(RPayload, depth, b[:]...)
			x.site("float", 1, 8, depth, 8)
		}
	case model.Decimal:
		d := v.Dec
		if d.Coef.Sign() == 0 && !d.NegZero && d.Exp == 0 && !(e.o.R != nil && e.o.R.Chance(1, 4)) {
			x.put(RTag, depth, 0x50)
			x.site("tag", 0, 1, depth, 5<<8)
			break
		}
		ex := varInt(int64(d.Exp), false)
		co := intField(d.Coef, d.NegZero)
		if len(co) == 0 && e.chance(e.o.LeadingZeros, 1, 3) {
			co = []byte{0}
		} else if len(co) > 0 && e.chance(e.o.LeadingZeros, 1, 5) {
			// pad the magnitude with a zero octet, keeping the sign bit in the first octet
			sign := co[0] & 0x80
			co[0] &= 0x7f
			co = append([]byte{sign}, co...)
		}
		e.header(x, 5, len(ex)+len(co), depth, true)
		po := len(x.b)
		x.putc(RPayload, depth, ex...)
		x.putc(RPayload, depth, co...)
		x.site("dec-exp", po, len(ex), depth, int64(d.Exp))
		x.site("dec-coef", po+len(ex), len(co), depth, 0)
	case model.Timestamp:
		e.timestamp(x, v.TS, depth)
	case model.Symbol:
		id := uint64(e.resolve(*v.Sym))
		var b []byte
		for t := id; t > 0; t >>= 8 {
			b = append([]byte{byte(t)}, b...)
		}
		if e.chance(e.o.LeadingZeros, 1, 4) && len(b) < 7 {
			b = append([]byte{0}, b...)
		}
		e.header(x, 7, len(b), depth, true)
		po := len(x.b)
		x.putc(RPayload, depth, b...)
		x.site("symid", po, len(b), depth, int64(id))
	case model.String:
		e.header(x, 8, len(v.Str), depth, true)
		po := len(x.b)
		x.putc(RPayload, depth, []byte(v.Str)...)
		x.site("string-payload", po, len(v.Str), depth, 0)
	case model.Clob, model.Blob:
		t := byte(9)
		if v.Kind == model.Blob {
			t = 10
		}
		e.header(x, t, len(v.Bytes), depth, true)
		po := len(x.b)
		x.putc(RPayload, depth, v.Bytes...)
		x.site("lob-payload", po, len(v.Bytes), depth, 0)
	case model.List, model.Sexp:
		t := byte(11)
		if v.Kind == model.Sexp {
			t = 12
		}
		body := &buf{}
		for _, k := range v.Kids {
			if e.chance(e.o.NOPs, 1, 6) {
				e.nop(body, depth+1)
			}
			body.add(e.value(k, depth+1))
		}
		if e.chance(e.o.NOPs, 1, 8) {
			e.nop(body, depth+1)
		}
		for i := range body.m {
			body.m[i].Cont = true
		}
		e.header(x, t, len(body.b), depth, true)
		x.add(body)
		x.site("container", 0, len(x.b), depth, int64(len(v.Kids)))
	case model.Struct:
		body := &buf{}
		asc := true
		last := int64(-1)
		for _, k := range v.Kids {
			if e.chance(e.o.NOPs, 1, 6) {
				fo := len(body.b)
				fid := e.varUIntPadded(uint64(e.o.R.Intn(10)))
				body.put(RFieldID, depth+1, fid...)
				body.site("fieldid", fo, len(fid), depth+1, -1)
				e.nop(body, depth+1)
				asc = false
			}
			id := e.resolve(*k.Field)
			if id < last {
				asc = false
			}
			last = id
			fo := len(body.b)
			fid := e.varUIntPadded(uint64(id))
			body.put(RFieldID, depth+1, fid...)
			body.site("fieldid", fo, len(fid), depth+1, id)
			body.add(e.value(k, depth+1))
		}
		for i := range body.m {
			body.m[i].Cont = true
		}
		if asc && len(v.Kids) > 0 && e.chance(e.o.Ordered, 3, 4) {
			x.put(RTag, depth, 0xd1)
			x.site("tag", 0, 1, depth, 13<<8|1)
			lb := e.varUIntPadded(uint64(len(body.b)))
			x.putc(RLen, depth, lb...)
			x.site("len", 1, len(lb), depth, int64(len(body.b)))
		} else if len(body.b) == 1 {
			// length 1 cannot be written inline for a struct (L=1 means ordered): use the VarUInt form
			x.put(RTag, depth, 0xde)
			x.site("tag", 0, 1, depth, 13<<8|14)
			x.putc(RLen, depth, 0x81)
			x.site("len", 1, 1, depth, 1)
		} else {
			e.header(x, 13, len(body.b), depth, true)
		}
		x.add(body)
		x.site("container", 0, len(x.b), depth, int64(len(v.Kids)))
	}
	return x
}

func (e *binEnc) timestamp(x *buf, t *model.TS, depth int) {
	u := *t
	if !t.Unknown {
		u = t.UTC()
	}
	var p buf
	field := func(idx int64, b []byte) {
		off := len(p.b)
		p.putc(RPayload, depth, b...)
		p.site("ts-field", off, len(b), depth, idx)
	}
	if t.Unknown {
		field(0, []byte{0xc0})
	} else {
		field(0, varInt(int64(t.Offset), false))
	}
	field(1, varUInt(uint64(u.Year)))
	if t.Prec >= model.Month {
		field(2, varUInt(uint64(u.Month)))
	}
	if t.Prec >= model.Day {
		field(3, varUInt(uint64(u.Day)))
	}
	if t.Prec >= model.Minute {
		field(4, varUInt(uint64(u.Hour)))
		field(5, varUInt(uint64(u.Minute)))
	}
	if t.Prec >= model.Second {
		field(6, varUInt(uint64(u.Second)))
	}
	if t.Prec >= model.Fraction {
		field(7, varInt(-int64(t.FracDigits), false))
		c, _ := new(big.Int).SetString(t.Frac, 10)
		cb := intField(c, false)
		if len(cb) == 0 && e.chance(e.o.LeadingZeros, 1, 2) {
			cb = []byte{0}
		}
		field(8, cb)
	}
	e.header(x, 6, len(p.b), depth, true)
	po := len(x.b)
	x.add(&p)
	x.site("ts", po, len(p.b), depth, int64(t.Prec))
}

func collectTexts(v *model.Value, seen map[string]bool, order *[]string) {
	add := func(s model.Sym) {
		if s.HasText && !s.ByID && sysID(s.Text) == 0 && !seen[s.Text] {
			seen[s.Text] = true
			*order = append(*order, s.Text)
		}
	}
	if v.Field != nil {
		add(*v.Field)
	}
	for _, a := range v.Annots {
		add(a)
	}
	if v.Kind == model.Symbol && !v.IsNull && v.Sym != nil {
		add(*v.Sym)
	}
	for _, k := range v.Kids {
		collectTexts(k, seen, order)
	}
}

func lstValue(symbols []string, appendMode bool) *model.Value {
	var syms []*model.Value
	for _, s := range symbols {
		syms = append(syms, model.NewString(s))
	}
	st := model.NewSeq(model.Struct)
	if appendMode {
		st.Kids = append(st.Kids, model.NewSymbol(model.T("$ion_symbol_table")).Named(model.T("imports")))
	}
	st.Kids = append(st.Kids, model.NewSeq(model.List, syms...).Named(model.T("symbols")))
	st.Annots = []model.Sym{model.T("$ion_symbol_table")}
	return st
}

func (e *binEnc) bvm(x *buf) {
	off := len(x.b)
	x.put(RBVM, 0, 0xe0, 0x01, 0x00, 0xea)
	x.m[off].Top = true
	x.site("bvm", off, 4, 0, 0)
}

func (e *binEnc) top(x *buf, v *model.Value) {
	if e.chance(e.o.NOPs, 1, 8) {
		off := len(x.b)
		e.nop(x, 0)
		x.m[off].Top = true
		x.m[off].Cont = false
	}
	off := len(x.b)
	vb := e.value(v, 0)
	for i := range vb.m {
		vb.m[i].Cont = true
	}
	x.add(vb)
	x.m[off].Top = true
	x.m[off].Cont = false
	x.site("top", off, len(vb.b), 0, int64(v.Kind))
}

// Binary renders items as an Ion 1.0 binary stream.
func Binary(items []Item, o BinOpts) *Out {
	e := &binEnc{o: o, local: map[string]int64{}, next: 10}
	x := &buf{}
	e.bvm(x)
	if !o.Auto {
		for _, it := range items {
			if it.BVM {
				e.bvm(x)
				continue
			}
			e.top(x, it.V)
		}
		return x.out()
	}
	// Auto mode: plan symbol tables.
	var vals []*model.Value
	for _, it := range items {
		if !it.BVM {
			vals = append(vals, it.V)
		}
	}
	seen := map[string]bool{}
	perValue := make([][]string, len(vals))
	for i, v := range vals {
		var order []string
		collectTexts(v, seen, &order)
		perValue[i] = order
	}
	split := -1
	if e.chance(o.SplitLST, 1, 2) && len(vals) >= 2 {
		split = o.R.Range(1, len(vals)-1)
	}
	rebvm := -1
	if e.chance(o.RepeatBVM, 1, 2) && len(vals) >= 2 {
		rebvm = o.R.Range(1, len(vals)-1)
	}
	var declared []string
	declare := func(from, to int, appendMode bool) {
		var syms []string
		for i := from; i < to; i++ {
			syms = append(syms, perValue[i]...)
		}
		if len(syms) == 0 && !appendMode {
			return
		}
		if appendMode && len(syms) == 0 {
			return
		}
		for _, s := range syms {
			e.local[s] = e.next
			e.next++
		}
		declared = append(declared, syms...)
		e.top(x, lstValue(syms, appendMode))
	}
	first := len(vals)
	if split > 0 {
		first = split
	}
	declare(0, first, false)
	for i, v := range vals {
		if i == split {
			declare(split, len(vals), true)
		}
		if i == rebvm {
			// a version marker resets the context: re-declare everything known so far
			e.bvm(x)
			if len(declared) > 0 {
				e.top(x, lstValue(declared, false))
			}
		}
		e.top(x, v)
	}
	if e.chance(o.NOPs, 1, 8) {
		off := len(x.b)
		e.nop(x, 0)
		x.m[off].Top = true
		x.m[off].Cont = false
	}
	return x.out()
}

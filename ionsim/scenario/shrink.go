package scenario

import (
	"ionsim/drive"
	"ionsim/sim"
)

// Minimise greedily shrinks a violation's case: a candidate is kept only if the same signature fails again.
func Minimise(s Scenario, v Violation, budget int) (Violation, int) {
	execs := 0
	cur := v
	for execs < budget {
		cands := s.Shrink(cur.Case)
		progress := false
		for _, cand := range cands {
			if execs >= budget {
				break
			}
			if len(cand) >= len(cur.Case) && string(cand) == string(cur.Case) {
				continue
			}
			execs++
			c := NewCtx(v.Seed)
			c.MaxPerSig = 1000
			if err := s.Replay(c, cand); err != nil {
				continue
			}
			for _, nv := range c.Violations {
				if nv.Signature == cur.Signature {
					nv.Seed, nv.Index = v.Seed, v.Index
					cur = nv
					progress = true
					break
				}
			}
			if progress {
				break
			}
		}
		if !progress {
			break
		}
	}
	return cur, execs
}

// removeSpans yields copies of data with spans removed: halves, quarters, ..., single bytes (for short data).
func removeSpans(data []byte) [][]byte {
	var out [][]byte
	n := len(data)
	for size := n / 2; size >= 1; size /= 2 {
		for st := 0; st+size <= n; st += size {
			d := append(append([]byte(nil), data[:st]...), data[st+size:]...)
			out = append(out, d)
		}
		if size == 1 {
			break
		}
		if len(out) > 400 {
			break
		}
	}
	return out
}

func shrinkRead(rc drive.ReadCase) []drive.ReadCase {
	var out []drive.ReadCase
	// simpler programs
	if rc.Prog.Kind == "nav" {
		x := rc
		x.Prog = drive.Full
		out = append(out, x)
		x = rc
		x.Prog = drive.TopSkip
		out = append(out, x)
		ds := rc.Prog.Decisions
		if len(ds) > 1 {
			for _, keep := range [][]drive.Decision{ds[:len(ds)/2], ds[len(ds)/2:], ds[:len(ds)-1], ds[1:]} {
				x = rc
				x.Prog = drive.Program{Kind: "nav", Decisions: append([]drive.Decision(nil), keep...)}
				out = append(out, x)
			}
		}
		for i, d := range ds {
			if d.Refused != 0 || d.K != 0 {
				x = rc
				nd := append([]drive.Decision(nil), ds...)
				nd[i].Refused = 0
				if d.Refused == 0 {
					nd[i].K = 0
				}
				x.Prog = drive.Program{Kind: "nav", Decisions: nd}
				out = append(out, x)
			}
		}
	}
	// simpler plans
	if len(rc.Plan.Steps) > 0 || rc.Plan.Tail != 0 || rc.Plan.EOFWithLast {
		x := rc
		x.Plan = sim.ReadPlan{Name: "whole", Fault: rc.Plan.Fault}
		out = append(out, x)
		if len(rc.Plan.Steps) > 1 {
			x = rc
			x.Plan.Steps = append([]int(nil), rc.Plan.Steps[:len(rc.Plan.Steps)/2]...)
			out = append(out, x)
			x = rc
			x.Plan.Steps = append([]int(nil), rc.Plan.Steps[:1]...)
			x.Plan.Tail = 0
			out = append(out, x)
		}
		if rc.Plan.EOFWithLast {
			x = rc
			x.Plan.EOFWithLast = false
			out = append(out, x)
		}
	}
	if f := rc.Plan.Fault; f != nil {
		if f.WithData {
			x := rc
			nf := *f
			nf.WithData = false
			x.Plan.Fault = &nf
			out = append(out, x)
		}
	}
	// less data
	for _, d := range removeSpans(rc.Data) {
		x := rc
		x.Data = d
		if f := rc.Plan.Fault; f != nil {
			nf := *f
			if nf.At > len(d) {
				nf.At = len(d)
			}
			x.Plan.Fault = &nf
			out = append(out, x)
			// also shift the fault left by the number of removed bytes
			nf2 := *f
			nf2.At -= len(rc.Data) - len(d)
			if nf2.At >= 0 && nf2.At != nf.At {
				y := x
				y.Plan.Fault = &nf2
				out = append(out, y)
			}
			continue
		}
		out = append(out, x)
	}
	return out
}

// shrinkOps yields shorter writer call sequences.
func shrinkOps(ops []drive.WOp) [][]drive.WOp {
	var out [][]drive.WOp
	n := len(ops)
	for size := n / 2; size >= 1; size /= 2 {
		for st := 0; st+size <= n; st += size {
			o := append(append([]drive.WOp(nil), ops[:st]...), ops[st+size:]...)
			out = append(out, o)
		}
		if size == 1 {
			break
		}
	}
	// simplify payloads
	for i, op := range ops {
		if op.V != nil {
			switch op.Op {
			case "string":
				if len(op.V.Str) > 1 {
					o := append([]drive.WOp(nil), ops...)
					v := op.V.Clone()
					v.Str = v.Str[:len(v.Str)/2]
					o[i].V = v
					out = append(out, o)
				}
			case "clob", "blob":
				if len(op.V.Bytes) > 1 {
					o := append([]drive.WOp(nil), ops...)
					v := op.V.Clone()
					v.Bytes = v.Bytes[:len(v.Bytes)/2]
					o[i].V = v
					out = append(out, o)
				}
			}
		}
	}
	return out
}

// Command ionsim runs the deterministic-simulation checks for amzn/ion-go.
//
//	ionsim check <property> <quick|thorough>   run a check (parent process; spawns workers)
//	ionsim replay <file>                       replay one explicit case in this process
//	ionsim worker ...                          internal
package main

import (
	"debug/elf"
	"encoding/binary"
	"encoding/json"
	"fmt"
	"hash/fnv"
	"io/ioutil"
	"os"
	"os/exec"
	"path/filepath"
	"regexp"
	"runtime"
	"sort"
	"strconv"
	"strings"
	"syscall"
	"time"

	"ionsim/scenario"
)

// verifDir is where known_findings.json, evidence/, replays/ and work/ live: /verif, or the directory ionsim.sh
// was started from (a snapshot made by `vp run`).
var verifDir = func() string {
	if d := os.Getenv("IONSIM_VERIF_DIR"); d != "" {
		return d
	}
	return "/verif"
}()

func main() {
	if len(os.Args) < 2 {
		usage()
	}
	switch os.Args[1] {
	case "check":
		if len(os.Args) < 4 {
			usage()
		}
		os.Exit(check(os.Args[2], os.Args[3]))
	case "worker":
		os.Exit(worker(os.Args[2:]))
	case "replay":
		if len(os.Args) < 3 {
			usage()
		}
		os.Exit(replayParent(os.Args[2]))
	case "replay1":
		if len(os.Args) < 3 {
			usage()
		}
		os.Exit(replay(os.Args[2]))
	case "minimise":
		// internal: minimise the violation stored in os.Args[2], write the result to os.Args[3]
		if len(os.Args) < 4 {
			usage()
		}
		os.Exit(minimiseChild(os.Args[2], os.Args[3]))
	case "solo":
		// internal: run one C18 task alone on a fresh world in this fresh process (pristine solo baseline)
		os.Exit(scenario.SoloMain(os.Stdin, os.Stdout))
	case "selftest":
		os.Exit(selftest(os.Args[2:]))
	default:
		usage()
	}
}

func usage() {
	fmt.Fprintln(os.Stderr, "usage: ionsim check <property> <quick|thorough> | replay <file> | selftest <what>")
	os.Exit(2)
}

func envInt(name string, def int64) int64 {
	if s := os.Getenv(name); s != "" {
		if v, err := strconv.ParseInt(s, 10, 64); err == nil {
			return v
		}
	}
	return def
}

// ---------------------------------------------------------------------------------------------------------
// worker

type workerResult struct {
	Counters   map[string]int64     `json:"counters"`
	Violations []scenario.Violation `json:"violations"`
	Samples    []json.RawMessage    `json:"samples"`
	Steps      int64                `json:"steps"`
	Indices    int                  `json:"indices"`
	Done       bool                 `json:"done"`
}

// worker <prop> <tier> <seed> <w> <W> <start> <dir> [single]
func worker(args []string) int {
	if len(args) < 7 {
		return 2
	}
	prop, tier := args[0], args[1]
	seed, _ := strconv.ParseUint(args[2], 10, 64)
	w, _ := strconv.Atoi(args[3])
	W, _ := strconv.Atoi(args[4])
	start, _ := strconv.Atoi(args[5])
	dir := args[6]
	single := len(args) > 7 && args[7] == "single"
	s := scenario.Get(prop)
	if s == nil {
		fmt.Fprintln(os.Stderr, "unknown property", prop)
		return 2
	}
	// The worker is single-threaded with respect to ion-go: deterministic allocation accounting.
	if limit := envInt("IONSIM_RLIMIT_AS_MB", 0); limit > 0 {
		var rl syscall.Rlimit
		rl.Cur = uint64(limit) << 20
		rl.Max = uint64(limit) << 20
		syscall.Setrlimit(syscall.RLIMIT_AS, &rl)
	}
	c := scenario.NewCtx(seed)
	n := s.Indices(tier)
	if v := envInt("IONSIM_INDICES", 0); v > 0 {
		n = int(v)
	}
	curFile := filepath.Join(dir, fmt.Sprintf("cur-%d", w))
	if single {
		caseFile := filepath.Join(dir, fmt.Sprintf("case-%d.json", w))
		c.WriteAhead = func(b []byte) { ioutil.WriteFile(caseFile, b, 0644) }
	}
	count := 0
	for i := start; i < n; i++ {
		if i%W != w {
			continue
		}
		ioutil.WriteFile(curFile, []byte(strconv.Itoa(i)), 0644)
		c.CurIndex = i
		runGuarded(s, c, i)
		count++
		if single {
			break
		}
	}
	res := workerResult{Counters: c.Counters, Violations: c.Violations, Samples: c.Samples, Steps: c.Steps, Indices: count, Done: true}
	b, _ := json.Marshal(res)
	if err := ioutil.WriteFile(filepath.Join(dir, fmt.Sprintf("res-%d-%d.json", w, start)), b, 0644); err != nil {
		return 2
	}
	hb := make([]byte, 0, 8*len(c.Hashes))
	var tmp [8]byte
	for h := range c.Hashes {
		binary.LittleEndian.PutUint64(tmp[:], h)
		hb = append(hb, tmp[:]...)
	}
	ioutil.WriteFile(filepath.Join(dir, fmt.Sprintf("hashes-%d-%d.bin", w, start)), hb, 0644)
	return 0
}

// runGuarded runs one index. Panics of ion-go are recovered inside package drive; a panic that reaches this
// point comes from the harness itself and must never be mistaken for a violation: exit code 3.
func runGuarded(s scenario.Scenario, c *scenario.Ctx, i int) {
	defer func() {
		if p := recover(); p != nil {
			fmt.Fprintf(os.Stderr, "HARNESS PANIC at index %d: %v\n", i, p)
			os.Exit(3)
		}
	}()
	s.Run(c, i)
}

// ---------------------------------------------------------------------------------------------------------
// known findings

type finding struct {
	Property  string `json:"property"`
	Signature string `json:"signature"`
	Status    string `json:"status"` // known | fixed
	Commit    string `json:"commit,omitempty"`
	What      string `json:"what"`
	Witness   string `json:"witness,omitempty"` // pinned replay file of a known finding, relative to /verif
}

type findingsFile struct {
	Findings []finding `json:"findings"`
}

func loadFindings() map[string]finding {
	out := map[string]finding{}
	b, err := ioutil.ReadFile(filepath.Join(verifDir, "known_findings.json"))
	if err != nil {
		return out
	}
	var ff findingsFile
	if json.Unmarshal(b, &ff) != nil {
		return out
	}
	for _, f := range ff.Findings {
		if f.Status == "known" {
			out[f.Property+"|"+f.Signature] = f
		}
	}
	return out
}

func sortedFindingKeys(m map[string]finding) []string {
	keys := make([]string, 0, len(m))
	for k := range m {
		keys = append(keys, k)
	}
	sort.Strings(keys)
	return keys
}

// ---------------------------------------------------------------------------------------------------------
// replay files

type replayFile struct {
	Property  string          `json:"property"`
	Scenario  string          `json:"scenario"`
	Clause    string          `json:"clause"`
	Signature string          `json:"signature"`
	Detail    string          `json:"detail"`
	Seed      uint64          `json:"seed"`
	Index     int             `json:"index"`
	ShrinkRun int             `json:"shrink_executions"`
	Case      json.RawMessage `json:"case"`
}

// replayParent runs the replay in a fresh child process so that a fatal runtime error or a hang of the
// case is itself observable.
func replayParent(path string) int {
	b, err := ioutil.ReadFile(path)
	if err != nil {
		fmt.Fprintln(os.Stderr, "replay:", err)
		return 2
	}
	var rf replayFile
	if err := json.Unmarshal(b, &rf); err != nil {
		fmt.Fprintln(os.Stderr, "replay:", err)
		return 2
	}
	var probe struct {
		Free bool `json:"free"`
	}
	if json.Unmarshal(rf.Case, &probe) == nil && probe.Free {
		return replayFree(rf, path)
	}
	self, err := os.Executable()
	if err != nil {
		return 2
	}
	// a case that took the stall limit in the sweep gets four times that when replayed alone
	stallDefault := int64(120)
	if rf.Property == "C06" {
		stallDefault = 30
	}
	limit := time.Duration(envInt("IONSIM_REPLAY_LIMIT_S", 4*envInt("IONSIM_STALL_S", stallDefault))) * time.Second
	cmd := exec.Command(self, "replay1", path)
	cmd.Env = append(os.Environ(), "GOMAXPROCS=2")
	cmd.Stdout = os.Stdout
	var errb strings.Builder
	cmd.Stderr = &errb
	if err := cmd.Start(); err != nil {
		return 2
	}
	done := make(chan error, 1)
	go func() { done <- cmd.Wait() }()
	code := 0
	hung := false
	select {
	case err := <-done:
		if err != nil {
			code = -1
			if ee, ok := err.(*exec.ExitError); ok {
				code = ee.ExitCode()
			}
		}
	case <-time.After(limit):
		cmd.Process.Kill()
		<-done
		hung = true
	}
	first := strings.SplitN(errb.String(), "\n", 2)[0]
	switch {
	case hung:
		fmt.Printf("replay: case did not finish within %v\n", limit)
		if strings.HasSuffix(rf.Clause, ".HANG") {
			fmt.Printf("VIOLATION property=%s replay=%s\n", rf.Property, path)
			return 1
		}
		return 2
	case code == 0 || code == 1 || code == 3:
		return code
	case code == 4:
		fmt.Fprint(os.Stderr, errb.String())
		return 2
	default:
		// the child died: fatal runtime error, kill, resource limit
		fmt.Printf("replay: child process died (exit %d): %s\n", code, first)
		if strings.HasSuffix(rf.Clause, ".F") {
			fmt.Printf("VIOLATION property=%s replay=%s\n", rf.Property, path)
			return 1
		}
		return 2
	}
}

func replay(path string) int {
	b, err := ioutil.ReadFile(path)
	if err != nil {
		fmt.Fprintln(os.Stderr, "replay:", err)
		return 4
	}
	var rf replayFile
	if err := json.Unmarshal(b, &rf); err != nil {
		fmt.Fprintln(os.Stderr, "replay:", err)
		return 4
	}
	s := scenario.Get(rf.Property)
	if s == nil {
		fmt.Fprintln(os.Stderr, "replay: unknown property", rf.Property)
		return 4
	}
	if limit := envInt("IONSIM_RLIMIT_AS_MB", 0); limit > 0 {
		var rl syscall.Rlimit
		rl.Cur = uint64(limit) << 20
		rl.Max = uint64(limit) << 20
		syscall.Setrlimit(syscall.RLIMIT_AS, &rl)
	}
	c := scenario.NewCtx(rf.Seed)
	c.MaxPerSig = 1000
	if err := s.Replay(c, rf.Case); err != nil {
		fmt.Fprintln(os.Stderr, "replay:", err)
		return 4
	}
	same := false
	for _, v := range c.Violations {
		fmt.Printf("replayed: clause=%s signature=%s\n  %s\n", v.Clause, v.Signature, v.Detail)
		if v.Signature == rf.Signature {
			same = true
		}
	}
	if same {
		fmt.Printf("VIOLATION property=%s replay=%s\n", rf.Property, path)
		return 1
	}
	if len(c.Violations) > 0 {
		fmt.Printf("replay: violations reproduced but none with the recorded signature %q\n", rf.Signature)
		return 3
	}
	fmt.Println("replay: no violation reproduced")
	return 0
}

// ---------------------------------------------------------------------------------------------------------
// check (parent)

type procState struct {
	w      int
	start  int
	cmd    *exec.Cmd
	done   chan error
	lastCh time.Time
	lastIx string
}

// spawnEnv is extra environment for the workers of the current batch (part B of C18 sets it).
var spawnEnv []string

func spawn(self string, prop, tier string, seed uint64, w, W, start int, dir string, single bool) *procState {
	args := []string{"worker", prop, tier, strconv.FormatUint(seed, 10), strconv.Itoa(w), strconv.Itoa(W), strconv.Itoa(start), dir}
	if single {
		args = append(args, "single")
	}
	cmd := exec.Command(self, args...)
	cmd.Env = append(os.Environ(), "GOMAXPROCS=2", "GOGC=100")
	if v := os.Getenv("IONSIM_WORKER_GOMAXPROCS"); v != "" {
		cmd.Env = append(cmd.Env, "GOMAXPROCS="+v)
	}
	cmd.Env = append(cmd.Env, spawnEnv...)
	if prop == "C18" && len(spawnEnv) == 0 && os.Getenv("IONSIM_WORKER_GOMAXPROCS") == "" {
		// part A hands control between parked goroutines at every seam call: one P keeps the hand-off on one thread
		cmd.Env = append(cmd.Env, "GOMAXPROCS=1")
	}
	if len(spawnEnv) > 0 && w%2 == 0 {
		cmd.Env = append(cmd.Env, "GOMAXPROCS=16")
	}
	logf, _ := os.Create(filepath.Join(dir, fmt.Sprintf("log-%d-%d.txt", w, start)))
	cmd.Stdout = logf
	cmd.Stderr = logf
	ps := &procState{w: w, start: start, cmd: cmd, done: make(chan error, 1), lastCh: time.Now()}
	if err := cmd.Start(); err != nil {
		ps.done <- err
		return ps
	}
	go func() { ps.done <- cmd.Wait(); logf.Close() }()
	return ps
}

func check(prop, tier string) int {
	t0 := time.Now()
	s := scenario.Get(prop)
	if s == nil {
		fmt.Fprintln(os.Stderr, "unknown property", prop)
		return 2
	}
	if tier != "quick" && tier != "thorough" {
		fmt.Fprintln(os.Stderr, "tier must be quick or thorough")
		return 2
	}
	os.Setenv("IONSIM_TIER", tier)
	seed := uint64(envInt("VERIF_SEED", 1))
	W := int(envInt("IONSIM_WORKERS", int64(runtime.NumCPU())))
	if W > 16 {
		W = 16
	}
	if W < 1 {
		W = 1
	}
	self, err := os.Executable()
	if err != nil {
		fmt.Fprintln(os.Stderr, err)
		return 2
	}
	dir := filepath.Join(verifDir, "work", fmt.Sprintf("%s-%d", prop, os.Getpid()))
	os.MkdirAll(dir, 0755)
	defer os.RemoveAll(dir)
	fmt.Printf("ionsim check property=%s scenario=%s tier=%s VERIF_SEED=%d workers=%d indices=%d\n", prop, s.Name(), tier, seed, W, s.Indices(tier))

	// A case normally takes well under a millisecond (inputs are a few KiB at most): a worker that sits on one index
	// for this long is stuck in a loop that touches no seam (or in runaway arithmetic).
	stallDefault := int64(120)
	if prop == "C06" {
		stallDefault = 30
	}
	if prop == "C18" {
		stallDefault = 300 // a task set in the -race build with fresh-process baselines can take minutes on a loaded machine
	}
	stallLimit := time.Duration(envInt("IONSIM_STALL_S", stallDefault)) * time.Second
	hangs := 0
	gaveUp := false
	infra := false
	var extra []scenario.Violation // violations found by the parent (death / hang / race report)
	deaths := 0
	partB := map[string]interface{}{}
	supervise := func(self string, dir string, W int) {
		var procs []*procState
		// at most maxLive workers at a time (part B of C18 uses many short-lived processes)
		maxLive := 2 * runtime.NumCPU()
		pending := 0
		for ; pending < W && pending < maxLive; pending++ {
			procs = append(procs, spawn(self, prop, tier, seed, pending, W, 0, dir, false))
		}
		// supervise
		for len(procs) > 0 || pending < W {
			var next []*procState
			for len(procs) < maxLive && pending < W {
				procs = append(procs, spawn(self, prop, tier, seed, pending, W, 0, dir, false))
				pending++
			}
			for _, p := range procs {
				select {
				case err := <-p.done:
					if err == nil {
						continue
					}
					// abnormal death
					if ee, ok := err.(*exec.ExitError); ok && ee.ExitCode() == 3 {
						fmt.Printf("worker %d stopped on a harness panic (see %s): infrastructure trouble\n", p.w, filepath.Join(dir, fmt.Sprintf("log-%d-%d.txt", p.w, p.start)))
						if lb, e2 := ioutil.ReadFile(filepath.Join(dir, fmt.Sprintf("log-%d-%d.txt", p.w, p.start))); e2 == nil {
							fmt.Println(strings.SplitN(string(lb), "\n", 2)[0])
						}
						infra = true
						continue
					}
					deaths++
					ixb, _ := ioutil.ReadFile(filepath.Join(dir, fmt.Sprintf("cur-%d", p.w)))
					ix, _ := strconv.Atoi(strings.TrimSpace(string(ixb)))
					fmt.Printf("worker %d died (%v) while running index %d\n", p.w, err, ix)
					v, ok := investigate(self, s, prop, tier, seed, p.w, W, ix, dir, "death", stallLimit)
					if ok {
						extra = append(extra, v)
					} else {
						fmt.Printf("worker death at index %d did not reproduce in isolation: infrastructure trouble\n", ix)
						infra = true
					}
					if deaths > 40 {
						fmt.Println("too many worker deaths; giving up on the remaining indices of this worker")
						infra = true
						continue
					}
					next = append(next, spawn(self, prop, tier, seed, p.w, W, ix+1, dir, false))
				default:
					// stall detection by the write-ahead index file
					ixb, _ := ioutil.ReadFile(filepath.Join(dir, fmt.Sprintf("cur-%d", p.w)))
					if string(ixb) != p.lastIx {
						p.lastIx = string(ixb)
						p.lastCh = time.Now()
					} else if time.Since(p.lastCh) > stallLimit {
						ix, _ := strconv.Atoi(strings.TrimSpace(string(ixb)))
						fmt.Printf("worker %d stalled for %v at index %d; killing it\n", p.w, stallLimit, ix)
						p.cmd.Process.Kill()
						<-p.done
						if hangs >= 1 {
							// a hang is already confirmed and will be reported: do not spend 10x the limit on every further one
							fmt.Printf("stall at index %d not investigated (%d hangs already confirmed); this worker's remaining indices are dropped\n", ix, hangs)
							gaveUp = true
							continue
						}
						v, ok := investigate(self, s, prop, tier, seed, p.w, W, ix, dir, "hang", stallLimit*4)
						if ok {
							extra = append(extra, v)
							hangs++
						} else {
							fmt.Printf("stall at index %d did not reproduce with a 4x limit: infrastructure trouble\n", ix)
							infra = true
						}
						next = append(next, spawn(self, prop, tier, seed, p.w, W, ix+1, dir, false))
						continue
					}
					next = append(next, p)
				}
			}
			procs = next
			if len(procs) > 0 {
				time.Sleep(50 * time.Millisecond)
			}
		}
	}
	supervise(self, dir, W)
	expected := s.Indices(tier)
	if prop == "C18" && os.Getenv("IONSIM_C18_PARTS") != "A" {
		// part B: the same seeded task sets, free-running, in the -race build
		raceBin := filepath.Join(filepath.Dir(self), "ionsim-race")
		if _, err := os.Stat(raceBin); err != nil {
			fmt.Println("part B needs", raceBin, "(./ionsim.sh build-race): infrastructure trouble")
			infra = true
		} else {
			os.Setenv("IONSIM_C18_MODE", "free")
			spawnEnv = []string{"IONSIM_C18_MODE=free", "GORACE=halt_on_error=0 history_size=7 atexit_sleep_ms=0 exitcode=0"}
			bdir := filepath.Join(dir, "free")
			os.MkdirAll(bdir, 0755)
			tB := time.Now()
			// ten times as many (short-lived) processes: whatever ion-go initialises lazily per process is cold again in
			// each of them, and the first task set of a process is the only one that can catch it being written
			supervise(raceBin, bdir, 10*W)
			spawnEnv = nil
			freeIdx := s.Indices(tier)
			os.Unsetenv("IONSIM_C18_MODE")
			reports, harnessRaces := collectRaces(bdir, seed)
			for _, hr := range harnessRaces {
				fmt.Println("race report without an ion-go frame (harness or runtime): infrastructure trouble\n" + hr)
				infra = true
			}
			extra = append(extra, reports...)
			// move part B result files next to part A's so that the merge below sees them
			moved, _ := filepath.Glob(filepath.Join(bdir, "res-*.json"))
			for k, f := range moved {
				os.Rename(f, filepath.Join(dir, fmt.Sprintf("res-free-%d.json", k)))
			}
			mh, _ := filepath.Glob(filepath.Join(bdir, "hashes-*.bin"))
			for k, f := range mh {
				os.Rename(f, filepath.Join(dir, fmt.Sprintf("hashes-free-%d.bin", k)))
			}
			expected += freeIdx
			partB["race_build"] = raceBin
			partB["free_indices"] = freeIdx
			partB["race_reports_with_ion_frames"] = len(reports)
			partB["wall_s"] = time.Since(tB).Seconds()
			partB["gomaxprocs"] = "16 (even workers) and 2 (odd workers)"
			partB["note"] = "schedule not controlled in part B; the race detector's happens-before analysis is the oracle"
		}
	}

	// coverage pass (thorough tier): the quick tier's indices once more in a -cover build, to report which statements of
	// package ion this scenario reaches at all (a reach measure for the evidence; it decides nothing)
	var coverage map[string]string
	if tier == "thorough" && os.Getenv("IONSIM_NO_COVER") == "" {
		coverBin := filepath.Join(filepath.Dir(self), "ionsim-cover")
		if _, err := os.Stat(coverBin); err == nil {
			cdir := filepath.Join(dir, "cover")
			covdata := filepath.Join(cdir, "data")
			os.MkdirAll(covdata, 0755)
			saveInfra, saveExtra, saveDeaths := infra, extra, deaths
			spawnEnv = []string{"GOCOVERDIR=" + covdata, "IONSIM_COVER_PASS=1", "IONSIM_NO_PRISTINE=1"}
			os.Setenv("IONSIM_INDICES", strconv.Itoa(s.Indices("quick")))
			supervise(coverBin, cdir, W)
			os.Unsetenv("IONSIM_INDICES")
			spawnEnv = nil
			infra, extra, deaths = saveInfra, saveExtra, saveDeaths // the coverage pass never decides anything
			coverage = coverageByFile(covdata)
		}
	}

	// merge
	counters := map[string]int64{}
	var viols []scenario.Violation
	var samples []json.RawMessage
	var steps int64
	indices := 0
	hashes := map[uint64]struct{}{}
	files, _ := filepath.Glob(filepath.Join(dir, "res-*.json"))
	sort.Strings(files)
	for _, f := range files {
		b, err := ioutil.ReadFile(f)
		if err != nil {
			infra = true
			continue
		}
		var r workerResult
		if json.Unmarshal(b, &r) != nil {
			infra = true
			continue
		}
		for k, v := range r.Counters {
			counters[k] += v
		}
		viols = append(viols, r.Violations...)
		if len(samples) < 4 {
			samples = append(samples, r.Samples...)
		}
		steps += r.Steps
		indices += r.Indices
	}
	hfiles, _ := filepath.Glob(filepath.Join(dir, "hashes-*.bin"))
	for _, f := range hfiles {
		b, _ := ioutil.ReadFile(f)
		for i := 0; i+8 <= len(b); i += 8 {
			hashes[binary.LittleEndian.Uint64(b[i:])] = struct{}{}
		}
	}
	viols = append(viols, extra...)
	sort.SliceStable(viols, func(i, j int) bool {
		if viols[i].Signature != viols[j].Signature {
			return viols[i].Signature < viols[j].Signature
		}
		return viols[i].Index < viols[j].Index
	})

	// classify by signature
	known := loadFindings()
	seenSig := map[string]bool{}
	var knownLines, violLines []string
	// pinned witnesses of known findings: replayed on every run; the line is printed while the witness reproduces
	for _, key := range sortedFindingKeys(known) {
		f := known[key]
		if f.Property != prop || f.Witness == "" {
			continue
		}
		wb, err := ioutil.ReadFile(filepath.Join(verifDir, f.Witness))
		var wrf replayFile
		if err != nil || json.Unmarshal(wb, &wrf) != nil {
			fmt.Printf("known finding %q: witness %s unreadable: infrastructure trouble\n", f.Signature, f.Witness)
			infra = true
			continue
		}
		wc := scenario.NewCtx(0)
		wc.MaxPerSig = 1000
		if err := s.Replay(wc, wrf.Case); err != nil {
			fmt.Printf("known finding %q: witness %s does not replay (%v): infrastructure trouble\n", f.Signature, f.Witness, err)
			infra = true
			continue
		}
		for _, wv := range wc.Violations {
			if wv.Signature == f.Signature && !seenSig[wv.Signature] {
				seenSig[wv.Signature] = true
				knownLines = append(knownLines, fmt.Sprintf("KNOWN-FINDING: property=%s %s [%s] (witness %s)", prop, f.What, f.Signature, f.Witness))
			}
		}
		if !seenSig[f.Signature] {
			fmt.Printf("note: the witness of known finding %q no longer reproduces (repaired?)\n", f.Signature)
		}
	}
	nviol := 0
	os.MkdirAll(filepath.Join(verifDir, "replays"), 0755)
	for _, v := range viols {
		if seenSig[v.Signature] {
			continue
		}
		seenSig[v.Signature] = true
		if f, ok := known[prop+"|"+v.Signature]; ok {
			knownLines = append(knownLines, fmt.Sprintf("KNOWN-FINDING: property=%s %s [%s] (seed %d index %d)", prop, f.What, v.Signature, v.Seed, v.Index))
			continue
		}
		// minimise, write replay file, confirm in a fresh process
		mv, execs := v, 0
		if !strings.HasSuffix(v.Clause, ".F") && !strings.HasSuffix(v.Clause, ".HANG") && !strings.HasSuffix(v.Clause, ".R") {
			mv, execs = safeMinimise(s, v)
		}
		nviol++
		path := filepath.Join(verifDir, "replays", fmt.Sprintf("%s-%d-%d.json", prop, seed, nviol))
		rf := replayFile{Property: prop, Scenario: s.Name(), Clause: mv.Clause, Signature: mv.Signature, Detail: mv.Detail, Seed: mv.Seed, Index: mv.Index, ShrinkRun: execs, Case: mv.Case}
		b, _ := json.MarshalIndent(rf, "", " ")
		ioutil.WriteFile(path, b, 0644)
		confirmed := confirm(self, path, stallLimit*4+60*time.Second)
		switch confirmed {
		case 1:
			violLines = append(violLines, fmt.Sprintf("VIOLATION property=%s replay=%s", prop, path))
			fmt.Printf("violation: clause=%s signature=%s (seed %d index %d, %d shrink executions)\n  %s\n", mv.Clause, mv.Signature, mv.Seed, mv.Index, execs, mv.Detail)
		default:
			fmt.Printf("violation %s did not reproduce from its replay file %s (replay exit %d): infrastructure trouble, not reported\n", mv.Signature, path, confirmed)
			infra = true
		}
	}

	wall := time.Since(t0).Seconds()
	evals := counters["evaluations"]
	if evals == 0 {
		for _, k := range scenario.SortedCounters(counters) {
			if strings.HasSuffix(k, ".runs") {
				evals += counters[k]
			}
		}
	}
	cov := map[string]interface{}{
		"evaluations":            evals,
		"distinct_nontrivial":    len(hashes),
		"rule":                   s.Rule(),
		"samples":                samples,
		"exhaustive":             false,
		"run_indices":            indices,
		"logical_io_steps":       steps,
		"simulated_time_note":    "ion-go has no clocks or timers; simulated time is reported as logical I/O steps (Read/Write/catalog calls)",
		"runs_per_hour":          int64(float64(evals) / wall * 3600),
		"counters":               counters,
		"components":             s.Components(),
		"known_findings_matched": knownLines,
		"workers":                W,
	}
	if len(partB) > 0 {
		cov["part_b_race_detector"] = partB
	}
	if coverage != nil {
		cov["statement_coverage_of_package_ion"] = coverage
		cov["statement_coverage_note"] = "statements of github.com/amzn/ion-go/ion executed by this scenario's quick-tier indices in a -cover build (reach measure only)"
	}
	ev := map[string]interface{}{
		"property_id": prop,
		"tier":        tier,
		"seed":        seed,
		"level":       s.Level(),
		"coverage":    cov,
		"assumptions": s.Assumptions(),
		"wall_s":      wall,
		"violations":  len(violLines),
	}
	// run digest: everything a run observed that must not depend on worker count, GOMAXPROCS or process layout
	dh := fnv.New64a()
	for _, k := range scenario.SortedCounters(counters) {
		fmt.Fprintf(dh, "%s=%d;", k, counters[k])
	}
	hl := make([]uint64, 0, len(hashes))
	for h := range hashes {
		hl = append(hl, h)
	}
	sort.Slice(hl, func(i, j int) bool { return hl[i] < hl[j] })
	for _, h := range hl {
		fmt.Fprintf(dh, "%x,", h)
	}
	for _, v := range viols {
		fmt.Fprintf(dh, "%s@%d;", v.Signature, v.Index)
	}
	fmt.Fprintf(dh, "steps=%d", steps)
	runDigest := fmt.Sprintf("%016x", dh.Sum64())
	ev["run_digest"] = runDigest
	eb, _ := json.MarshalIndent(ev, "", " ")
	if os.Getenv("IONSIM_NO_EVIDENCE") == "" {
		os.MkdirAll(filepath.Join(verifDir, "evidence"), 0755)
		if err := ioutil.WriteFile(filepath.Join(verifDir, "evidence", prop+".json"), eb, 0644); err != nil {
			fmt.Fprintln(os.Stderr, "cannot write evidence:", err)
			infra = true
		}
	}

	for _, k := range scenario.SortedCounters(counters) {
		fmt.Printf("  %-60s %d\n", k, counters[k])
	}
	fmt.Printf("evaluations=%d distinct_nontrivial=%d io_steps=%d indices=%d wall=%.1fs\n", evals, len(hashes), steps, indices, wall)
	fmt.Printf("RUN-DIGEST %s\n", runDigest)
	for _, l := range knownLines {
		fmt.Println(l)
	}
	for _, l := range violLines {
		fmt.Println(l)
	}
	if len(violLines) > 0 {
		return 1
	}
	if infra {
		fmt.Println("INFRASTRUCTURE TROUBLE (exit 2): see messages above")
		return 2
	}
	if indices < expected && envInt("IONSIM_INDICES", 0) == 0 && !gaveUp {
		fmt.Printf("only %d of %d indices completed: infrastructure trouble\n", indices, expected)
		return 2
	}
	fmt.Printf("OK property=%s held on everything explored\n", prop)
	return 0
}

type minimiseResult struct {
	V     scenario.Violation `json:"v"`
	Execs int                `json:"execs"`
}

func minimiseChild(in, out string) int {
	b, err := ioutil.ReadFile(in)
	if err != nil {
		return 4
	}
	var v scenario.Violation
	if json.Unmarshal(b, &v) != nil {
		return 4
	}
	s := scenario.Get(v.Property)
	if s == nil {
		return 4
	}
	if limit := envInt("IONSIM_RLIMIT_AS_MB", 0); limit > 0 {
		var rl syscall.Rlimit
		rl.Cur = uint64(limit) << 20
		rl.Max = uint64(limit) << 20
		syscall.Setrlimit(syscall.RLIMIT_AS, &rl)
	}
	mv, execs := scenario.Minimise(s, v, 2000)
	ob, _ := json.Marshal(minimiseResult{V: mv, Execs: execs})
	if ioutil.WriteFile(out, ob, 0644) != nil {
		return 4
	}
	return 0
}

// safeMinimise minimises in a child process: replaying candidates of a C06-style violation can exhaust memory or hang, and
// that must not take the parent down. If the child dies or runs out of time the unminimised case is reported.
func safeMinimise(s scenario.Scenario, v scenario.Violation) (mv scenario.Violation, execs int) {
	self, err := os.Executable()
	if err != nil {
		return v, 0
	}
	dir, err := ioutil.TempDir(filepath.Join(verifDir, "work"), "min-")
	if err != nil {
		return v, 0
	}
	defer os.RemoveAll(dir)
	in, out := filepath.Join(dir, "in.json"), filepath.Join(dir, "out.json")
	b, _ := json.Marshal(v)
	if ioutil.WriteFile(in, b, 0644) != nil {
		return v, 0
	}
	cmd := exec.Command(self, "minimise", in, out)
	cmd.Env = append(os.Environ(), "GOMAXPROCS=2", "IONSIM_RLIMIT_AS_MB=6144")
	if cmd.Start() != nil {
		return v, 0
	}
	done := make(chan error, 1)
	go func() { done <- cmd.Wait() }()
	select {
	case err := <-done:
		if err != nil {
			return v, 0
		}
	case <-time.After(150 * time.Second):
		cmd.Process.Kill()
		<-done
		return v, 0
	}
	ob, err := ioutil.ReadFile(out)
	var mr minimiseResult
	if err != nil || json.Unmarshal(ob, &mr) != nil || mr.V.Case == nil {
		return v, 0
	}
	return mr.V, mr.Execs
}

func safeMinimiseInProcess(s scenario.Scenario, v scenario.Violation) (mv scenario.Violation, execs int) {
	mv = v
	defer func() {
		if p := recover(); p != nil {
			mv = v
		}
	}()
	done := make(chan struct{})
	var rv scenario.Violation
	var re int
	go func() {
		defer func() {
			recover()
			close(done)
		}()
		rv, re = scenario.Minimise(s, v, 2000)
	}()
	select {
	case <-done:
		if rv.Case != nil {
			return rv, re
		}
		return v, re
	case <-time.After(120 * time.Second):
		return v, 0
	}
}

// confirm replays a file in a fresh process: 1 = same violation reproduced.
func confirm(self, path string, limit time.Duration) int {
	cmd := exec.Command(self, "replay", path)
	cmd.Env = append(os.Environ(), "GOMAXPROCS=2")
	done := make(chan error, 1)
	if err := cmd.Start(); err != nil {
		return 2
	}
	go func() { done <- cmd.Wait() }()
	select {
	case err := <-done:
		if err == nil {
			return 0
		}
		if ee, ok := err.(*exec.ExitError); ok {
			return ee.ExitCode()
		}
		return 2
	case <-time.After(limit):
		cmd.Process.Kill()
		return 124
	}
}

// investigate re-runs one index alone with per-case write-ahead. If the worker dies (or hangs) again the
// in-flight case is the culprit; it is confirmed once more from its replay file by the caller's protocol.
func investigate(self string, s scenario.Scenario, prop, tier string, seed uint64, w, W, ix int, dir, what string, limit time.Duration) (scenario.Violation, bool) {
	caseFile := filepath.Join(dir, fmt.Sprintf("case-%d.json", w))
	os.Remove(caseFile)
	p := spawn(self, prop, tier, seed, w, W, ix, dir, true)
	var err error
	hung := false
	select {
	case err = <-p.done:
	case <-time.After(limit):
		p.cmd.Process.Kill()
		<-p.done
		hung = true
	}
	if err == nil && !hung {
		// completed normally this time: pick up its result file as usual
		return scenario.Violation{}, false
	}
	if ee, ok := err.(*exec.ExitError); ok && !hung && ee.ExitCode() == 3 {
		return scenario.Violation{}, false // harness panic: infrastructure trouble, never a violation
	}
	b, rerr := ioutil.ReadFile(caseFile)
	clause := prop + ".F"
	detail := fmt.Sprintf("worker process died (%v) while running this case (fatal runtime error or resource exhaustion); reproduced in isolation", err)
	if hung {
		clause = prop + ".HANG"
		detail = fmt.Sprintf("case did not finish within %v (4x the stall limit) when re-run alone", limit)
	}
	if rerr != nil || len(b) == 0 {
		// the scenario has no per-case write-ahead: identify by seed and index
		b = []byte(fmt.Sprintf("{\"by_index\":true,\"seed\":%d,\"index\":%d}", seed, ix))
	}
	logb, _ := ioutil.ReadFile(filepath.Join(dir, fmt.Sprintf("log-%d-%d.txt", w, ix)))
	first := strings.SplitN(string(logb), "\n", 2)[0]
	sig := clause + "/" + scenario.DeathClass(first)
	return scenario.Violation{Property: prop, Clause: clause, Signature: sig, Detail: detail + "; first log line: " + first, Seed: seed, Index: ix, Case: b}, true
}

// coverageByFile turns a GOCOVERDIR into "covered/total statements (percent)" per source file of package ion.
func coverageByFile(covdata string) map[string]string {
	txt := filepath.Join(filepath.Dir(covdata), "cover.txt")
	cmd := exec.Command("go", "tool", "covdata", "textfmt", "-i="+covdata, "-o="+txt)
	cmd.Env = append(os.Environ(), "GOFLAGS=-mod=mod", "GOPROXY=off", "GOSUMDB=off", "GOTOOLCHAIN=local")
	if out, err := cmd.CombinedOutput(); err != nil {
		return map[string]string{"error": fmt.Sprintf("go tool covdata: %v: %s", err, strings.TrimSpace(string(out)))}
	}
	b, err := ioutil.ReadFile(txt)
	if err != nil {
		return map[string]string{"error": err.Error()}
	}
	total := map[string]int{}
	hit := map[string]int{}
	for _, line := range strings.Split(string(b), "\n") {
		// github.com/amzn/ion-go/ion/bitstream.go:151.34,153.18 2 1
		i := strings.Index(line, ":")
		f := strings.Fields(line)
		if i < 0 || len(f) != 3 || !strings.Contains(line, "/ion-go/ion/") {
			continue
		}
		file := filepath.Base(line[:i])
		n, _ := strconv.Atoi(f[1])
		cnt, _ := strconv.Atoi(f[2])
		total[file] += n
		if cnt > 0 {
			hit[file] += n
		}
	}
	out := map[string]string{}
	allT, allH := 0, 0
	for f, t := range total {
		out[f] = fmt.Sprintf("%d/%d (%.1f%%)", hit[f], t, 100*float64(hit[f])/float64(t))
		allT += t
		allH += hit[f]
	}
	if allT > 0 {
		out["TOTAL"] = fmt.Sprintf("%d/%d (%.1f%%)", allH, allT, 100*float64(allH)/float64(allT))
	}
	return out
}

// ---------------------------------------------------------------------------------------------------------
// race reports (C18 part B)

type raceReport struct {
	Burst bool
	Index int
	Sig   string
	Text  string
	Ion   bool
}

var ionFrameRE = regexp.MustCompile(`github\.com/amzn/ion-go/ion\.([^\s(]+(?:\([^)]*\))?[^\s(]*)\(`)

var raceAddrRE = regexp.MustCompile(`at 0x([0-9a-f]+) by`)

var raceSyms []elf.Symbol

// globalSymbol returns the name of the data symbol of the race binary that covers addr ("" if none).
func globalSymbol(addr uint64) string {
	if raceSyms == nil {
		self, err := os.Executable()
		if err != nil {
			return ""
		}
		bin := self
		if !strings.HasSuffix(bin, "-race") {
			bin = filepath.Join(filepath.Dir(self), "ionsim-race")
		}
		f, err := elf.Open(bin)
		if err != nil {
			return ""
		}
		defer f.Close()
		raceSyms, _ = f.Symbols()
		if raceSyms == nil {
			raceSyms = []elf.Symbol{}
		}
	}
	for _, sy := range raceSyms {
		if sy.Size > 0 && addr >= sy.Value && addr < sy.Value+sy.Size && elf.ST_TYPE(sy.Info) == elf.STT_OBJECT {
			return sy.Name
		}
	}
	return ""
}

// parseRaces extracts the data race reports from a worker log. A report's signature is the first ion-go frame
// of each of the two conflicting accesses.
func parseRaces(log string) []raceReport {
	var out []raceReport
	index := -1
	burst := false
	lines := strings.Split(log, "\n")
	for i := 0; i < len(lines); i++ {
		l := lines[i]
		if strings.HasPrefix(l, "##INDEX ") {
			f := strings.Fields(l[8:])
			if len(f) > 0 {
				index, _ = strconv.Atoi(f[0])
			}
			burst = len(f) > 1 && f[1] == "burst"
			continue
		}
		if !strings.HasPrefix(l, "WARNING: DATA RACE") {
			continue
		}
		// collect the block up to the closing ================== line
		j := i + 1
		for j < len(lines) && !strings.HasPrefix(lines[j], "==================") {
			if strings.HasPrefix(lines[j], "##INDEX ") {
				// a marker printed by the main goroutine can land inside a report only between indices; keep scanning
			}
			j++
		}
		block := lines[i:j]
		var stanzas [][]string
		var cur []string
		for _, b := range block[1:] {
			if strings.TrimSpace(b) == "" {
				if len(cur) > 0 {
					stanzas = append(stanzas, cur)
					cur = nil
				}
				continue
			}
			cur = append(cur, b)
		}
		if len(cur) > 0 {
			stanzas = append(stanzas, cur)
		}
		var frames []string
		for k := 0; k < len(stanzas) && k < 2; k++ {
			f := "?"
			for _, ln := range stanzas[k] {
				if m := ionFrameRE.FindStringSubmatch(ln); m != nil {
					f = "ion." + m[1]
					break
				}
			}
			frames = append(frames, f)
		}
		rr := raceReport{Index: index, Burst: burst, Text: strings.Join(block, "\n")}
		for _, f := range frames {
			if f != "?" {
				rr.Ion = true
			}
		}
		if !rr.Ion {
			// The detector could not restore the stacks (deep recursion outruns its history). A race on a package-level
			// variable can still be attributed: the address is looked up in the symbol table of the race binary.
			if m := raceAddrRE.FindStringSubmatch(block[1]); m != nil {
				if addr, err := strconv.ParseUint(m[1], 16, 64); err == nil {
					if sym := globalSymbol(addr); strings.HasPrefix(sym, "github.com/amzn/ion-go/ion.") {
						rr.Ion = true
						frames = []string{"global:ion." + strings.TrimPrefix(sym, "github.com/amzn/ion-go/ion.")}
						rr.Text += "\n(stacks not restored; address attributed through the symbol table to " + sym + ")"
					}
				}
			}
		}
		sort.Strings(frames)
		rr.Sig = "C18.R/" + strings.Join(frames, "|")
		out = append(out, rr)
		i = j
	}
	return out
}

// collectRaces reads the part B worker logs and turns race reports into violations carrying the explicit case.
func collectRaces(bdir string, seed uint64) (viols []scenario.Violation, harness []string) {
	logs, _ := filepath.Glob(filepath.Join(bdir, "log-*.txt"))
	sort.Strings(logs)
	for _, lf := range logs {
		b, err := ioutil.ReadFile(lf)
		if err != nil {
			continue
		}
		for _, rr := range parseRaces(string(b)) {
			if !rr.Ion {
				harness = append(harness, rr.Text)
				continue
			}
			cs := scenario.ConcCaseJSON(seed, rr.Index, rr.Burst)
			txt := rr.Text
			if len(txt) > 2500 {
				txt = txt[:2500] + "..."
			}
			viols = append(viols, scenario.Violation{Property: "C18", Clause: "C18.R", Signature: rr.Sig, Detail: "race detector report while the task set ran free:\n" + txt, Seed: seed, Index: rr.Index, Case: cs})
		}
	}
	return viols, harness
}

// replayFree replays a part B case in the -race build: the task set runs free several times; the interleaving is
// the Go runtime's, so the replay is repeated (up to 12 processes x 20 repetitions) until the recorded
// signature shows up again.
func replayFree(rf replayFile, path string) int {
	self, err := os.Executable()
	if err != nil {
		return 2
	}
	raceBin := filepath.Join(filepath.Dir(self), "ionsim-race")
	if _, err := os.Stat(raceBin); err != nil {
		fmt.Println("replay of a free-running case needs", raceBin, "(./ionsim.sh build-race)")
		return 2
	}
	for attempt := 0; attempt < 12; attempt++ {
		cmd := exec.Command(raceBin, "replay1", path)
		gmp := "GOMAXPROCS=16"
		if attempt%3 == 2 {
			gmp = "GOMAXPROCS=2"
		}
		cmd.Env = append(os.Environ(), gmp, "IONSIM_C18_MODE=free", "GORACE=halt_on_error=0 history_size=7 atexit_sleep_ms=0 exitcode=0")
		var outb, errb strings.Builder
		cmd.Stdout = &outb
		cmd.Stderr = &errb
		done := make(chan error, 1)
		if err := cmd.Start(); err != nil {
			return 2
		}
		go func() { done <- cmd.Wait() }()
		select {
		case <-done:
		case <-time.After(20 * time.Minute):
			cmd.Process.Kill()
			<-done
			fmt.Println("replay: free-running case did not finish")
			return 2
		}
		if strings.HasSuffix(rf.Clause, ".R") {
			for _, rr := range parseRaces(errb.String()) {
				fmt.Printf("replayed (attempt %d): race report signature=%s\n", attempt+1, rr.Sig)
				if rr.Sig == rf.Signature {
					fmt.Println(rr.Text)
					fmt.Printf("VIOLATION property=%s replay=%s\n", rf.Property, path)
					return 1
				}
			}
			continue
		}
		fmt.Print(outb.String())
		if strings.Contains(outb.String(), "VIOLATION property=") {
			return 1
		}
	}
	fmt.Println("replay: no violation reproduced")
	return 0
}

func selftest(args []string) int {
	fmt.Fprintln(os.Stderr, "selftest: use ionsim.sh selftest")
	return 2
}

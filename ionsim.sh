#!/bin/bash
# Entry point of the ionsim checks. Usage:
#   ./ionsim.sh build
#   ./ionsim.sh check <property> <quick|thorough>
#   ./ionsim.sh replay <file>
# Exit codes: 0 held, 1 VIOLATION, 2 infrastructure trouble.
# The checks build amzn/ion-go from /repo's working tree (IONSIM_REPO overrides the path: used only by background
# sweeps that must not be disturbed by edits to /repo).
set -u
ROOT="$(cd "$(dirname "$0")" && pwd)"
cd "$ROOT/ionsim" || exit 2
export GOFLAGS=-mod=mod GOPROXY=off GOSUMDB=off GOTOOLCHAIN=local GOWORK=off
export IONSIM_VERIF_DIR="$ROOT"
REPO="${IONSIM_REPO:-/repo}"
BIN="$ROOT/bin"
mkdir -p "$BIN"
prep() {
  cp "$REPO/go.sum" go.sum 2>/dev/null
  if [ "$REPO" != "/repo" ]; then
    go mod edit -replace "github.com/amzn/ion-go=$REPO" || exit 2
  fi
}
build() {
  prep
  go build -o "$BIN/ionsim" ./cmd/ionsim || { echo "BUILD FAILED (exit 2)"; exit 2; }
}
build_race() {
  prep
  go build -race -o "$BIN/ionsim-race" ./cmd/ionsim || { echo "RACE BUILD FAILED (exit 2)"; exit 2; }
}
build_cover() {
  prep
  go build -cover -coverpkg=github.com/amzn/ion-go/ion,ionsim/cmd/ionsim -o "$BIN/ionsim-cover" ./cmd/ionsim || { echo "COVER BUILD FAILED (exit 2)"; exit 2; }
}
case "${1:-}" in
  build)
    build
    build_race
    ;;
  build-race)
    build_race
    ;;
  check)
    build
    shift
    [ "${1:-}" = "C18" ] && build_race
    tier="${2:-${VERIF_TIER:-quick}}"
    [ "$tier" = "thorough" ] && [ -z "${IONSIM_NO_COVER:-}" ] && build_cover
    exec "$BIN/ionsim" check "$1" "$tier"
    ;;
  replay)
    build
    grep -q '"free": *true' "$2" 2>/dev/null && build_race
    exec "$BIN/ionsim" replay "$2"
    ;;
  *)
    echo "usage: $0 build | check <property> <quick|thorough> | replay <file>" >&2
    exit 2
    ;;
esac

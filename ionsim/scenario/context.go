package scenario

import (
	"encoding/json"
	"fmt"
	"strings"

	"ionsim/drive"
	"ionsim/gen"
	"ionsim/model"
	"ionsim/prng"
	"ionsim/render"
	"ionsim/sim"
)

// context decides C10: symbols in a stream resolve against the symbol table in force at that point.
type context struct{}

func init() { Register(context{}) }

func (context) Property() string { return "C10" }
func (context) Name() string     { return "context" }
func (context) Level() string    { return "exploration" }
func (context) Indices(tier string) int {
	if tier == "thorough" {
		return 1500000
	}
	return 150000
}
func (context) Rule() string {
	return "Per run index: one seeded history of 3..20 events over {version marker, replacing local symbol table (0..3 imports x 0..5 local " +
		"symbols), appending local symbol table, user value}; imports are drawn from a pool of shared tables with several versions and a " +
		"declared max_id that is absent, equal, smaller or larger than the table; user values carry symbols as value, field name and " +
		"annotation referenced by ID across the whole defined range (including import padding slots and $0) or by text. The history is " +
		"rendered to binary and to text by the independent renderers, delivered under a seeded delivery plan, and read with a catalog in " +
		"one of the skew states per table name (exact, only newer, only older, missing, everything; ion.NewCatalog or the simulated " +
		"catalog). Every observation is compared with the symbol-context model. Distinct by hash of (stream bytes, catalog, delivery " +
		"schedule); non-trivial = the history contains at least one table event and one user value that references a non-system ID."
}
func (context) Assumptions() []string {
	return []string{
		"the symbol-context model (ionsim model/symctx.go, written from the Ion 1.0 symbols specification)",
		"independent renderers produce the streams (canonical spelling, so that the reader's decoding of everything but symbols is not in question)",
		"MaxID is demanded only of binary readers (the API documentation says text readers generally have no symbol table)",
		"corners the property does not pin down are not generated: IDs beyond the maximum, duplicate imports/symbols fields, null.struct tables, non-string symbols entries, null max_id",
	}
}
func (context) Components() map[string]string {
	return map[string]string{
		"ion package (text and binary Readers, readLocalSymbolTable, symbol tables, basicCatalog)": "real code from /repo working tree",
		"ion.Catalog":                "real ion.NewCatalog in 2 of 3 runs; stub sim catalog (arbitrary version sets, counted lookups) in 1 of 3",
		"io.Reader under the Reader": "stub: sim.Source (seeded delivery plan)",
		"symbol-context model":       "ionsim model",
	}
}

// ctxEvent is one event of a history: a version marker, or a top-level value (a local symbol table struct
// or a user value whose symbols are given by ID).
type ctxEvent struct {
	BVM bool         `json:"bvm,omitempty"`
	V   *model.Value `json:"v,omitempty"`
}

type ctxCase struct {
	Events     []ctxEvent     `json:"events"`
	Catalog    *model.Catalog `json:"catalog,omitempty"`
	SimCatalog bool           `json:"sim_catalog,omitempty"`
	Binary     bool           `json:"binary"`
	Plan       sim.ReadPlan   `json:"plan"`
}

// expectation is what the symbol-context model says about a history.
type expectation struct {
	items   []render.Item
	want    []*model.Value
	maxIDs  []int64
	wantErr bool
	names   []string
	hasBVM  bool
	nontriv bool
	valid   bool
}

// resolveTree returns a copy of v in which every by-ID symbol is replaced by what the context says it denotes;
// ok=false if an ID is outside the context (a case the oracle does not cover).
func resolveTree(v *model.Value, ctx *model.Context, nontriv *bool) (*model.Value, bool) {
	w := v.Clone()
	ok := true
	var fix func(x *model.Value)
	res := func(s *model.Sym) {
		if !s.ByID {
			*s = model.T(s.Text)
			return
		}
		if s.SID > 9 {
			*nontriv = true
		}
		r, in := ctx.Resolve(s.SID)
		if !in {
			ok = false
			return
		}
		*s = r
	}
	fix = func(x *model.Value) {
		if x.Field != nil {
			res(x.Field)
		}
		for i := range x.Annots {
			res(&x.Annots[i])
		}
		if x.Kind == model.Symbol && !x.IsNull && x.Sym != nil {
			res(x.Sym)
		}
		for _, k := range x.Kids {
			fix(k)
		}
	}
	fix(w)
	return w, ok
}

// resolveLSTFields returns a copy of a table struct in which field names given by ID carry the text the context gives them.
func resolveLSTFields(v *model.Value, ctx *model.Context) *model.Value {
	w := v.Clone()
	var fix func(x *model.Value, depth int)
	fix = func(x *model.Value, depth int) {
		if x.Field != nil && x.Field.ByID {
			if r, in := ctx.Resolve(x.Field.SID); in {
				*x.Field = r
			}
		}
		if depth < 3 {
			for _, k := range x.Kids {
				fix(k, depth+1)
			}
		}
	}
	fix(w, 0)
	return w
}

// expectHistory runs the symbol-context model over a history.
func expectHistory(events []ctxEvent, cat *model.Catalog) expectation {
	e := expectation{valid: true}
	ctx := model.NewContext()
	sawTable := false
	refNon := false
	for _, ev := range events {
		if e.wantErr {
			break
		}
		switch {
		case ev.BVM:
			e.items = append(e.items, render.Item{BVM: true})
			ctx.Reset()
			e.hasBVM = true
			e.names = append(e.names, "bvm")
		case ev.V != nil && model.IsLST(ev.V):
			// field names of the table struct (and of its import structs) may be given by ID: they resolve against the
			// context in force before the table takes effect
			d := model.DeclFromStruct(resolveLSTFields(ev.V, ctx))
			e.items = append(e.items, render.Item{V: ev.V})
			if err := ctx.Apply(d, cat); err != nil {
				e.wantErr = true
			}
			sawTable = true
			if d.Append {
				e.names = append(e.names, fmt.Sprintf("append(symbols=%d)", len(d.Symbols)))
			} else {
				e.names = append(e.names, fmt.Sprintf("lst(imports=%d,symbols=%d)", len(d.Imports), len(d.Symbols)))
			}
		case ev.V != nil:
			w, ok := resolveTree(ev.V, ctx, &refNon)
			if !ok {
				e.valid = false
				return e
			}
			if w.Kind == model.Struct && len(w.Annots) > 0 && w.Annots[0].HasText && w.Annots[0].Text == "$ion_symbol_table" {
				e.valid = false // would itself be a symbol table (avoided corner)
				return e
			}
			if w.Kind == model.Symbol && !w.IsNull && len(w.Annots) == 0 && w.Sym.HasText && gen.LooksLikeIVM(w.Sym.Text) {
				e.valid = false // reads as a version marker in text (avoided corner)
				return e
			}
			e.items = append(e.items, render.Item{V: ev.V})
			e.want = append(e.want, w)
			e.maxIDs = append(e.maxIDs, ctx.MaxID())
			e.names = append(e.names, "value")
		}
	}
	e.nontriv = sawTable && refNon
	return e
}

var ctxPool = []model.Shared{
	{Name: "A", Version: 1, Symbols: []string{"a1", "a2", "a3"}},
	{Name: "A", Version: 2, Symbols: []string{"a1", "a2", "a3", "a4", "a5"}},
	{Name: "A", Version: 3, Symbols: []string{"a1", "a2", "a3", "a4", "a5", "a6", "a7", "a8"}},
	{Name: "B", Version: 1, Symbols: []string{"b1"}},
	{Name: "B", Version: 2, Symbols: []string{"b1", "b2", "dup", "b4"}},
	{Name: "C", Version: 1, Symbols: []string{}},
	{Name: "C", Version: 4, Symbols: []string{"c1", "dup", "c3", "c4", "c5", "c6", "c7", "c8", "c9", "c10", "c11", "c12"}},
	{Name: "D", Version: 2, Symbols: []string{"d1", "d2"}},
	// versions whose decimal strings do not sort like the numbers (9 < 10 < 100)
	{Name: "F", Version: 9, Symbols: []string{"f1", "f2"}},
	{Name: "F", Version: 10, Symbols: []string{"f1", "f2", "f3", "f4"}},
	{Name: "F", Version: 100, Symbols: []string{"f1", "f2", "f3", "f4", "f5", "f6"}},
	// names and versions whose concatenation collides ("T1"+"12" == "T11"+"2")
	{Name: "T1", Version: 12, Symbols: []string{"p1", "p2", "p3"}},
	{Name: "T11", Version: 2, Symbols: []string{"q1", "q2", "q3", "q4", "q5"}},
}

var ctxLocalTexts = []string{"x", "y", "zed", "dup", "a1", "name", "q_1", "$ion", "hello", "w", "a b", "é", "k9", "symbols", "imports", "max_id", "version", "$ion_symbol_table", "$ion_shared_symbol_table"}

func poolVersions(name string) []int {
	var out []int
	for _, t := range ctxPool {
		if t.Name == name {
			out = append(out, t.Version)
		}
	}
	return out
}

func poolTable(name string, v int) *model.Shared {
	for i := range ctxPool {
		if ctxPool[i].Name == name && ctxPool[i].Version == v {
			return &ctxPool[i]
		}
	}
	return nil
}

// genCatalog draws a catalog with a skew state per table name.
func genCatalog(r *prng.Rand) (*model.Catalog, string) {
	if r.Chance(1, 10) {
		return nil, "nil-catalog"
	}
	cat := &model.Catalog{}
	var desc []string
	for _, name := range []string{"A", "B", "C", "D", "F", "T1", "T11"} {
		vs := poolVersions(name)
		switch r.Intn(5) {
		case 0: // everything
			for _, v := range vs {
				cat.Tables = append(cat.Tables, *poolTable(name, v))
			}
			desc = append(desc, name+":all")
		case 1: // only the newest
			cat.Tables = append(cat.Tables, *poolTable(name, vs[len(vs)-1]))
			desc = append(desc, name+":newest")
		case 2: // only the oldest
			cat.Tables = append(cat.Tables, *poolTable(name, vs[0]))
			desc = append(desc, name+":oldest")
		case 3: // missing
			desc = append(desc, name+":missing")
		default: // a random subset
			for _, v := range vs {
				if r.Bool() {
					cat.Tables = append(cat.Tables, *poolTable(name, v))
				}
			}
			desc = append(desc, name+":subset")
		}
	}
	return cat, strings.Join(desc, ",")
}

func lstStruct(r *prng.Rand, d model.LSTDecl) *model.Value {
	st := model.NewSeq(model.Struct)
	st.Annots = []model.Sym{model.T("$ion_symbol_table")}
	var fields []*model.Value
	if d.Append {
		fields = append(fields, model.NewSymbol(model.T("$ion_symbol_table")).Named(model.T("imports")))
	} else if len(d.Imports) > 0 || r.Chance(1, 6) {
		var imps []*model.Value
		for _, im := range d.Imports {
			s := model.NewSeq(model.Struct)
			var fs []*model.Value
			fs = append(fs, model.NewString(im.Name).Named(model.T("name")))
			if im.Version != 1 || r.Chance(2, 3) {
				fs = append(fs, model.NewInt(int64(im.Version)).Named(model.T("version")))
			}
			if im.HasMaxID {
				fs = append(fs, model.NewInt(im.MaxID).Named(model.T("max_id")))
			}
			for _, j := range r.Perm(len(fs)) {
				s.Kids = append(s.Kids, fs[j])
			}
			imps = append(imps, s)
		}
		fields = append(fields, model.NewSeq(model.List, imps...).Named(model.T("imports")))
	}
	if len(d.Symbols) > 0 || r.Chance(1, 4) {
		var syms []*model.Value
		for _, s := range d.Symbols {
			syms = append(syms, model.NewString(s.Text))
		}
		fields = append(fields, model.NewSeq(model.List, syms...).Named(model.T("symbols")))
	}
	if r.Chance(1, 8) {
		// open content: an unknown field is ignored
		fields = append(fields, model.NewString("ignored").Named(model.T("name")))
	}
	for _, j := range r.Perm(len(fields)) {
		st.Kids = append(st.Kids, fields[j])
	}
	return st
}

// fieldsByLocalID respells, every other time, a field name of a table struct (or of one of its import structs) by a
// local ID whose text in the context in force is that very name ("symbols", "imports", "name", "version", "max_id").
func fieldsByLocalID(r *prng.Rand, st *model.Value, ctx *model.Context) *model.Value {
	var fix func(x *model.Value, depth int)
	fix = func(x *model.Value, depth int) {
		if x.Field != nil && x.Field.HasText && !x.Field.ByID {
			ids := ctx.IDsOf(x.Field.Text, 10)
			if len(ids) > 0 && r.Bool() {
				*x.Field = model.Sym{SID: ids[r.Intn(len(ids))], ByID: true}
			}
		}
		if depth < 3 {
			for _, k := range x.Kids {
				fix(k, depth+1)
			}
		}
	}
	fix(st, 0)
	return st
}

// genHistory draws a history. A running model context is kept only to aim symbol IDs at the defined range.
func genHistory(r *prng.Rand, cat *model.Catalog, binary bool) []ctxEvent {
	ctx := model.NewContext()
	n := r.Range(3, 20)
	var events []ctxEvent
	failed := false
	pickSym := func() model.Sym {
		max := ctx.MaxID()
		var id int64
		switch r.Intn(6) {
		case 0:
			id = int64(r.Intn(10)) // $0 and system symbols
		case 1:
			id = max // last defined
		default:
			id = int64(r.Intn(int(max) + 1))
			if max > 100000 && r.Bool() {
				id = max - int64(r.Intn(12)) // the last few IDs: the local symbols behind a huge stretch of padding
			}
		}
		if !binary && r.Chance(1, 4) {
			// by text (text format only)
			return model.T([]string{"plain", "x", "a1", "other_text", "name"}[r.Intn(5)])
		}
		return model.Sym{SID: id, ByID: true}
	}
	var genValue func(depth int) *model.Value
	genValue = func(depth int) *model.Value {
		var v *model.Value
		switch k := r.Intn(8); {
		case k < 4 || depth >= 2:
			v = model.NewSymbol(pickSym())
		case k == 4:
			v = model.NewString("s")
		case k == 5:
			v = model.NewNull(model.Symbol)
		default:
			kind := []model.Kind{model.List, model.Sexp, model.Struct}[r.Intn(3)]
			v = model.NewSeq(kind)
			for j := r.Intn(4); j > 0; j-- {
				cv := genValue(depth + 1)
				if kind == model.Struct {
					f := pickSym()
					cv.Field = &f
				}
				v.Kids = append(v.Kids, cv)
			}
		}
		if r.Chance(1, 4) {
			for j := r.Range(1, 2); j > 0; j-- {
				v.Annots = append(v.Annots, pickSym())
			}
		}
		return v
	}
	if r.Chance(1, 14) {
		// a long chain of appending tables (each becomes one more import of the next context), then values that refer to
		// the first and last ID of each link
		var bounds []int64
		for link, links := 0, r.Range(14, 24); link < links; link++ {
			d := model.LSTDecl{Append: true}
			if link == 0 && r.Bool() {
				d.Append = false
			}
			for j := r.Range(1, 2); j > 0; j-- {
				d.Symbols = append(d.Symbols, model.Slot{Text: ctxLocalTexts[r.Intn(len(ctxLocalTexts))], Known: true})
			}
			events = append(events, ctxEvent{V: lstStruct(r, d)})
			ctx.Apply(d, cat)
			bounds = append(bounds, ctx.MaxID(), ctx.MaxID()-int64(len(d.Symbols))+1)
			if r.Chance(1, 3) {
				events = append(events, ctxEvent{V: model.NewSymbol(model.Sym{SID: bounds[r.Intn(len(bounds))], ByID: true})})
			}
		}
		l := model.NewSeq(model.List)
		for _, b := range bounds {
			l.Kids = append(l.Kids, model.NewSymbol(model.Sym{SID: b, ByID: true}))
		}
		l.Kids = append(l.Kids, model.NewSymbol(model.Sym{SID: 9, ByID: true}), model.NewSymbol(model.Sym{SID: 10, ByID: true}))
		events = append(events, ctxEvent{V: l})
		n = r.Range(0, 4)
	}
	for e := 0; e < n && !failed; e++ {
		switch k := r.Intn(10); {
		case k == 0 && e > 0:
			events = append(events, ctxEvent{BVM: true})
			ctx.Reset()
		case k <= 2: // replacing table
			var d model.LSTDecl
			for j := r.Intn(4); j > 0; j-- {
				name := []string{"A", "B", "C", "D", "E", "F", "F", "T1", "T11"}[r.Intn(9)]
				if r.Chance(1, 12) {
					// import clauses the specification says are ignored
					name = []string{"$ion", ""}[r.Intn(2)]
				}
				vs := poolVersions(name)
				ver := 1
				if len(vs) > 0 {
					ver = vs[r.Intn(len(vs))]
				}
				if r.Chance(1, 6) {
					ver = r.Range(1, 5)
					if r.Chance(1, 3) {
						ver = r.Range(6, 120)
					}
				}
				imp := model.ImportDecl{Name: name, Version: ver}
				length := int64(3)
				if t := poolTable(name, ver); t != nil {
					length = int64(len(t.Symbols))
				}
				mk := r.Intn(10)
				if mk >= 5 {
					mk = 1 + mk%4
				}
				switch mk {
				case 0: // absent
				case 1:
					imp.HasMaxID, imp.MaxID = true, length
				case 2:
					imp.HasMaxID, imp.MaxID = true, int64(r.Intn(int(length)+1))
				case 3:
					imp.HasMaxID, imp.MaxID = true, length+int64(r.Range(1, 4))
				default:
					imp.HasMaxID, imp.MaxID = true, int64(r.Intn(14))
				}
				if r.Chance(1, 40) {
					// a declared max_id far beyond the table: IDs that need more than 16 and more than 32 bits
					imp.HasMaxID, imp.MaxID = true, []int64{65530, 1<<32 - 11, 1 << 32, 1<<32 + 5, 1 << 40}[r.Intn(5)]
				}
				d.Imports = append(d.Imports, imp)
			}
			for j := r.Intn(6); j > 0; j-- {
				d.Symbols = append(d.Symbols, model.Slot{Text: ctxLocalTexts[r.Intn(len(ctxLocalTexts))], Known: true})
			}
			events = append(events, ctxEvent{V: fieldsByLocalID(r, lstStruct(r, d), ctx)})
			if err := ctx.Apply(d, cat); err != nil {
				failed = true
			}
		case k == 3: // appending table
			d := model.LSTDecl{Append: true}
			for j := r.Intn(5); j > 0; j-- {
				d.Symbols = append(d.Symbols, model.Slot{Text: ctxLocalTexts[r.Intn(len(ctxLocalTexts))], Known: true})
			}
			events = append(events, ctxEvent{V: fieldsByLocalID(r, lstStruct(r, d), ctx)})
			ctx.Apply(d, cat)
		default:
			events = append(events, ctxEvent{V: genValue(0)})
		}
	}
	return events
}

func (s context) Run(c *Ctx, i int) {
	r := prng.New(prng.Mix(c.Seed, 10, uint64(i)))
	binary := i%2 == 0
	cat, catDesc := genCatalog(r.Fork())
	events := genHistory(r.Fork(), cat, binary)
	pr := r.Fork()
	var plan sim.ReadPlan
	switch pr.Intn(4) {
	case 0:
		plan = planWhole()
	case 1:
		plan = planBytes()
	case 2:
		plan = planRandom(pr, 200, pr.Bool())
	default:
		plan = planRandom(pr, 40, false)
		plan.Tail = 3
	}
	cs := ctxCase{Events: events, Catalog: cat, SimCatalog: i%3 == 0, Binary: binary, Plan: plan}
	c.Count("catalog."+strings.SplitN(catDesc, ",", 2)[0], 1)
	ex := s.exec(c, cs)
	if ex == nil {
		return
	}
	if i < 4 {
		c.Sample(map[string]interface{}{"index": i, "events": ex.names, "catalog": catDesc, "binary": binary, "expected": drive.ModelLines(ex.want)})
	}
	if ex.wantErr {
		c.Count("ctx.histories-expecting-error", 1)
	}
	for _, e := range ex.names {
		c.Count("event."+strings.SplitN(e, "(", 2)[0], 1)
	}
}

func (s context) exec(c *Ctx, cs ctxCase) *expectation {
	c.Ahead(cs) // write-ahead for crash forensics (a declared max_id of 2^40 must not cost memory)
	ex := expectHistory(cs.Events, cs.Catalog)
	if !ex.valid {
		c.Count("ctx.case-outside-oracle(skipped)", 1)
		return nil
	}
	var out *render.Out
	if cs.Binary {
		out = render.Binary(ex.items, render.BinOpts{})
	} else {
		// canonical spelling, except that symbol identifiers get leading zeros now and then ($007 is ID 7)
		th := uint64(len(cs.Events))*1099511628211 + 7
		for _, ev := range cs.Events {
			if ev.V != nil {
				th = (th ^ uint64(ev.V.Size())) * 1099511628211
			}
		}
		out = render.Text(ex.items, render.TextOpts{R: prng.New(th), SIDZeros: true, Dense: true})
	}
	want := drive.ModelLines(ex.want)
	rc := drive.ReadCase{Data: out.Bytes, Plan: cs.Plan, Prog: drive.Full, Catalog: cs.Catalog, SimCatalog: cs.SimCatalog, KeepMaxID: true}
	oc := drive.RunRead(rc)
	// the symbol-context model says nothing about the reader's answers between StepOut and Next (that is C08's matter)
	kept := oc.Lines[:0:0]
	for _, l := range oc.Lines {
		if !strings.HasPrefix(l, "after-stepout:") {
			kept = append(kept, l)
		}
	}
	oc.Lines = kept
	c.Steps += int64(oc.Reads)
	c.Count("ctx.runs", 1)
	if ex.nontriv {
		h := hashRead(out.Bytes, oc.SrcHash, rc.Prog)
		if cs.Catalog != nil {
			for _, t := range cs.Catalog.Tables {
				h = (h ^ uint64(len(t.Name)*31+t.Version)) * 1099511628211
			}
		}
		c.DistinctU(h)
	}
	fm := "text"
	if cs.Binary {
		fm = "binary"
	}
	detail := func(msg string) string {
		return msg + fmt.Sprintf(" | events: %s | stream: %s", trunc(strings.Join(ex.names, " "), 160), showOut(out.Bytes, cs.Binary))
	}
	if oc.Panic != "" {
		c.Report("C10", "C10.P", "C10.P/"+fm+"/"+oc.Frame+"/"+drive.PanicClass(oc.Panic), detail("panic: "+oc.Panic), cs)
		return &ex
	}
	if oc.Spin {
		c.Report("C10", "C10.L", "C10.L/"+fm, detail("reader keeps calling Read after end of data"), cs)
		return &ex
	}
	mismatch := func(j int) {
		got, wantl := oc.Lines[j], want[j]
		clause := "C10.a"
		gp, wp := strings.Split(got, "|"), strings.Split(wantl, "|")
		// a differing type or nesting, or a surfaced table struct, is clause c; differing symbol text is clause a
		if len(gp) < 2 || len(wp) < 2 || gp[0] != wp[0] || gp[1] != wp[1] {
			clause = "C10.c"
		}
		class := "symbol-text"
		if clause == "C10.c" {
			class = "structure"
			if strings.Contains(got, "$ion_symbol_table") {
				class = "table-surfaced"
			}
			if strings.Contains(got, "\"$ion_1_0\"") {
				class = "version-marker-surfaced"
			}
		}
		if ex.hasBVM && !cs.Binary {
			class += "(after-text-version-marker)"
		}
		c.Report("C10", clause, clause+"/"+fm+"/"+class, detail(fmt.Sprintf("observation %d: got %q, model says %q", j, got, wantl)), cs)
	}
	if ex.wantErr {
		// (d) an import without usable max_id and without an exact catalog match is an error
		if oc.Err == "" {
			c.Report("C10", "C10.d", "C10.d/"+fm+"/no-error", detail("an import without a usable max_id and without an exact catalog match was accepted"), cs)
			return &ex
		}
		// the values before the offending table are still compared
		k := len(oc.Lines)
		if k > 0 && strings.HasSuffix(oc.Lines[k-1], "|end") {
			k--
		}
		for j := 0; j < k && j < len(want); j++ {
			if oc.Lines[j] != want[j] {
				mismatch(j)
				return &ex
			}
		}
		return &ex
	}
	if oc.Err != "" {
		c.Report("C10", "C10.d", "C10.d/"+fm+"/unexpected-error/"+errClass(oc.Err), detail(fmt.Sprintf("a history the model accepts ended with error %q (from %s) after %d observations", oc.Err, oc.ErrAt, len(oc.Lines))), cs)
		return &ex
	}
	n := len(oc.Lines)
	if len(want) < n {
		n = len(want)
	}
	for j := 0; j < n; j++ {
		if oc.Lines[j] != want[j] {
			mismatch(j)
			return &ex
		}
	}
	if len(oc.Lines) != len(want) {
		c.Report("C10", "C10.c", "C10.c/"+fm+"/count", detail(fmt.Sprintf("reader produced %d observations, the model %d", len(oc.Lines), len(want))), cs)
		return &ex
	}
	if cs.Binary {
		for j := range ex.maxIDs {
			if j < len(oc.MaxIDs) && oc.MaxIDs[j] != ex.maxIDs[j] {
				c.Report("C10", "C10.b", "C10.b/binary", detail(fmt.Sprintf("after user value %d SymbolTable().MaxID() is %d, the model says %d", j, oc.MaxIDs[j], ex.maxIDs[j])), cs)
				return &ex
			}
		}
	}
	return &ex
}

func (s context) Replay(c *Ctx, caseJSON []byte) error {
	var cs ctxCase
	if err := json.Unmarshal(caseJSON, &cs); err != nil {
		return err
	}
	if len(cs.Events) == 0 {
		// a by-index case written by the parent for a worker that died
		var bi struct {
			ByIndex bool   `json:"by_index"`
			Seed    uint64 `json:"seed"`
			Index   int    `json:"index"`
		}
		if json.Unmarshal(caseJSON, &bi) == nil && bi.ByIndex {
			c.Seed = bi.Seed
			s.Run(c, bi.Index)
			return nil
		}
	}
	s.exec(c, cs)
	return nil
}

func (s context) Shrink(caseJSON []byte) [][]byte {
	var cs ctxCase
	if json.Unmarshal(caseJSON, &cs) != nil {
		return nil
	}
	var out [][]byte
	emit := func(x ctxCase) {
		if b, err := json.Marshal(x); err == nil {
			out = append(out, b)
		}
	}
	// drop events (halves, then single events)
	n := len(cs.Events)
	for size := n / 2; size >= 1; size /= 2 {
		for st := 0; st+size <= n; st += size {
			x := cs
			x.Events = append(append([]ctxEvent(nil), cs.Events[:st]...), cs.Events[st+size:]...)
			emit(x)
		}
		if size == 1 {
			break
		}
	}
	// simplify values: drop children and annotations
	for i, ev := range cs.Events {
		if ev.V == nil {
			continue
		}
		if len(ev.V.Annots) > 0 && !model.IsLST(ev.V) {
			x := cs
			x.Events = append([]ctxEvent(nil), cs.Events...)
			v := ev.V.Clone()
			v.Annots = nil
			x.Events[i] = ctxEvent{V: v}
			emit(x)
		}
		for k := range ev.V.Kids {
			x := cs
			x.Events = append([]ctxEvent(nil), cs.Events...)
			v := ev.V.Clone()
			v.Kids = append(append([]*model.Value(nil), v.Kids[:k]...), v.Kids[k+1:]...)
			x.Events[i] = ctxEvent{V: v}
			emit(x)
			// drop grandchildren (imports list entries, symbols list entries)
			for g := range ev.V.Kids[k].Kids {
				y := cs
				y.Events = append([]ctxEvent(nil), cs.Events...)
				v2 := ev.V.Clone()
				kid := v2.Kids[k]
				kid.Kids = append(append([]*model.Value(nil), kid.Kids[:g]...), kid.Kids[g+1:]...)
				y.Events[i] = ctxEvent{V: v2}
				emit(y)
			}
		}
	}
	if len(cs.Plan.Steps) > 0 || cs.Plan.Tail != 0 || cs.Plan.EOFWithLast {
		x := cs
		x.Plan = planWhole()
		emit(x)
	}
	if cs.SimCatalog {
		x := cs
		x.SimCatalog = false
		emit(x)
	}
	if cs.Catalog != nil {
		for k := range cs.Catalog.Tables {
			x := cs
			nc := &model.Catalog{Tables: append(append([]model.Shared(nil), cs.Catalog.Tables[:k]...), cs.Catalog.Tables[k+1:]...)}
			x.Catalog = nc
			emit(x)
		}
	}
	return out
}

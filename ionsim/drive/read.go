// Package drive is the only package that imports ion-go. It runs caller programs against the real ion-go
// API over simulated Sources, Sinks and Catalogs and produces canonical observation traces.
package drive

import (
	"fmt"
	"math"
	"runtime"
	"strconv"
	"strings"

	"github.com/amzn/ion-go/ion"

	"ionsim/model"
	"ionsim/sim"
)

// Decision is what a navigation program does at one value position.
type Decision struct {
	// Act for a scalar or null: 0 read with the matching accessor, 1 leave unread.
	// Act for a non-null container: 0 step in and read to the end, 1 skip, 2 step in and step out after K children.
	Act int `json:"a,omitempty"`
	K   int `json:"k,omitempty"`
	// Refused is a bit set of calls the Reader must refuse, issued at this position:
	// 1 StepIn on a scalar or null; 2 an accessor of another type; 4 StepOut at top level (depth 0 only);
	// 8 StepIn again right after a successful StepIn; 16 every accessor of another type;
	// 32 (not a refused call) read the value twice and ask Type / IsNull / FieldName / Annotations again afterwards.
	Refused int `json:"r,omitempty"`
}

// Program is a caller program for a Reader.
type Program struct {
	Kind      string     `json:"kind"` // full | topskip | nav
	Decisions []Decision `json:"decisions,omitempty"`
}

var Full = Program{Kind: "full"}
var TopSkip = Program{Kind: "topskip"}

// Obs is one observed value position.
type Obs struct {
	Depth  int
	Type   string
	Null   bool
	Field  string
	Annots string
	Val    string
}

func (o Obs) Line(withVal bool) string {
	v := "-"
	if withVal {
		v = o.Val
	}
	return fmt.Sprintf("%d|%s|%v|%s|%s|%s", o.Depth, o.Type, o.Null, o.Field, o.Annots, v)
}

// Node is a value of the reference tree (ion-go's own plain traversal).
type Node struct {
	Obs
	Container bool // non-null container
	Kids      []*Node
	// AfterOut is what Type / IsNull / FieldName / Annotations answered right after the StepOut that left this
	// container, before the next Next (plain traversal: after Next had returned false).
	AfterOut string
}

// Outcome of running a program against a Reader.
type Outcome struct {
	Lines []string
	Tree  []*Node // only for full traversals
	Err   string  // first error: Err() or an error returned by StepIn/StepOut/a matching accessor; "" = nil
	ErrAt string  // which call returned it
	Panic string  // "" = none; panic message
	Frame string  // top ion-go frame of the panic
	Spin  bool    // the Source's reads-after-end budget was exceeded
	// Sticky: when Err() was non-nil at the end, whether three more Next() returned false and Err() kept its text.
	StickyChecked bool
	StickyOK      bool
	StickyDetail  string
	NextTrue      int // number of Next()==true results
	// MaxIDs observed after each top-level user value (binary readers; -1 when SymbolTable() is nil).
	MaxIDs []int64
	// Source statistics.
	Reads, Delivered, ReadsAfterEnd int
	FaultFired                      bool
	SrcHash                         uint64
	Cuts                            []int
}

// Key is the comparable part of an outcome: trace and error.
func (o *Outcome) Key() string {
	var sb strings.Builder
	for _, l := range o.Lines {
		sb.WriteString(l)
		sb.WriteByte('\n')
	}
	sb.WriteString("err=" + o.Err)
	if o.Panic != "" {
		sb.WriteString("\npanic=" + o.Panic)
	}
	if o.Spin {
		sb.WriteString("\nspin")
	}
	return sb.String()
}

func tokStr(t *ion.SymbolToken) string {
	if t == nil {
		return "nil"
	}
	if t.Text != nil {
		return strconv.Quote(*t.Text)
	}
	return "$" + strconv.FormatInt(t.LocalSID, 10)
}

func annStr(as []ion.SymbolToken) string {
	if len(as) == 0 {
		return ""
	}
	parts := make([]string, len(as))
	for i := range as {
		parts[i] = tokStr(&as[i])
	}
	return strings.Join(parts, ",")
}

type stop struct{}

type walker struct {
	sid    bool
	r      ion.Reader
	prog   Program
	out    *Outcome
	idx    int
	build  bool
	keepID bool
}

// tok renders a symbol token; with sid set, its LocalSID is part of the rendering.
func (w *walker) tok(t *ion.SymbolToken) string {
	if w.sid && t != nil {
		return tokStr(t) + "#" + strconv.FormatInt(t.LocalSID, 10)
	}
	return tokStr(t)
}

func (w *walker) anns(as []ion.SymbolToken) string {
	if !w.sid {
		return annStr(as)
	}
	parts := make([]string, len(as))
	for i := range as {
		parts[i] = w.tok(&as[i])
	}
	return strings.Join(parts, ",")
}

func (w *walker) fail(at string, err error) {
	w.out.Err = err.Error()
	w.out.ErrAt = at
	panic(stop{})
}

func (w *walker) decision() Decision {
	switch w.prog.Kind {
	case "full":
		return Decision{}
	case "topskip":
		return Decision{Act: 1}
	}
	if len(w.prog.Decisions) == 0 {
		return Decision{}
	}
	d := w.prog.Decisions[w.idx%len(w.prog.Decisions)]
	w.idx++
	return d
}

// scalar reads the current value with the accessor matching its type and renders it canonically.
func (w *walker) scalar(t ion.Type) string {
	r := w.r
	switch t {
	case ion.NullType:
		return "null"
	case ion.BoolType:
		v, err := r.BoolValue()
		if err != nil {
			w.fail("BoolValue", err)
		}
		if v == nil {
			return "nil"
		}
		return strconv.FormatBool(*v)
	case ion.IntType:
		sz, err := r.IntSize()
		if err != nil {
			w.fail("IntSize", err)
		}
		v, err := r.BigIntValue()
		if err != nil {
			w.fail("BigIntValue", err)
		}
		if v == nil {
			return "nil"
		}
		s := v.String()
		if v.IsInt64() {
			i64, err := r.Int64Value()
			if err != nil {
				w.fail("Int64Value", err)
			}
			if i64 == nil || *i64 != v.Int64() {
				s += "!int64-mismatch"
			}
		}
		return s + "/" + sz.String()
	case ion.FloatType:
		v, err := r.FloatValue()
		if err != nil {
			w.fail("FloatValue", err)
		}
		if v == nil {
			return "nil"
		}
		if math.IsNaN(*v) {
			return "nan"
		}
		return strconv.FormatUint(math.Float64bits(*v), 16)
	case ion.DecimalType:
		v, err := r.DecimalValue()
		if err != nil {
			w.fail("DecimalValue", err)
		}
		if v == nil {
			return "nil"
		}
		c, e := v.CoEx()
		return fmt.Sprintf("%s|%sd%d", v.String(), c.String(), e)
	case ion.TimestampType:
		v, err := r.TimestampValue()
		if err != nil {
			w.fail("TimestampValue", err)
		}
		if v == nil {
			return "nil"
		}
		return fmt.Sprintf("%s|p%d|k%d|f%d|%d", v.String(), v.GetPrecision(), v.GetTimezoneKind(), v.GetNumberOfFractionalSeconds(), v.GetDateTime().UnixNano())
	case ion.SymbolType:
		v, err := r.SymbolValue()
		if err != nil {
			w.fail("SymbolValue", err)
		}
		return w.tok(v)
	case ion.StringType:
		v, err := r.StringValue()
		if err != nil {
			w.fail("StringValue", err)
		}
		if v == nil {
			return "nil"
		}
		return strconv.Quote(*v)
	case ion.ClobType, ion.BlobType:
		v, err := r.ByteValue()
		if err != nil {
			w.fail("ByteValue", err)
		}
		if v == nil {
			return "nil"
		}
		return fmt.Sprintf("%x", v)
	}
	return "?"
}

// wrongAccessors calls accessors that do not match the current type; their results are ignored.
func (w *walker) wrongAccessors(t ion.Type, all bool) {
	r := w.r
	calls := []struct {
		t ion.Type
		f func()
	}{
		{ion.BoolType, func() { r.BoolValue() }},
		{ion.IntType, func() { r.Int64Value() }},
		{ion.IntType, func() { r.BigIntValue() }},
		{ion.IntType, func() { r.IntSize() }},
		{ion.FloatType, func() { r.FloatValue() }},
		{ion.DecimalType, func() { r.DecimalValue() }},
		{ion.TimestampType, func() { r.TimestampValue() }},
		{ion.SymbolType, func() { r.SymbolValue() }},
		{ion.StringType, func() { r.StringValue() }},
		{ion.ClobType, func() { r.ByteValue() }},
	}
	n := 0
	for i, c := range calls {
		if c.t == t || (c.t == ion.ClobType && t == ion.BlobType) {
			continue
		}
		if t == ion.IntType && c.t == ion.IntType {
			continue
		}
		if !all && (i+int(t))%3 != 0 {
			continue
		}
		c.f()
		n++
	}
}

func isContainer(t ion.Type) bool {
	return t == ion.ListType || t == ion.SexpType || t == ion.StructType
}

// level iterates the current level. limit<0: until Next returns false. Returns nodes when building.
func (w *walker) level(depth int, limit int) []*Node {
	var nodes []*Node
	r := w.r
	count := 0
	for {
		if limit >= 0 && count >= limit {
			return nodes
		}
		if !r.Next() {
			w.out.Lines = append(w.out.Lines, fmt.Sprintf("%d|end", depth))
			return nodes
		}
		w.out.NextTrue++
		count++
		d := w.decision()
		t := r.Type()
		o := Obs{Depth: depth, Type: t.String(), Null: r.IsNull()}
		fn, err := r.FieldName()
		if err != nil {
			w.fail("FieldName", err)
		}
		if fn != nil {
			o.Field = w.tok(fn)
		}
		as, err := r.Annotations()
		if err != nil {
			w.fail("Annotations", err)
		}
		o.Annots = w.anns(as)
		if d.Refused&4 != 0 && depth == 0 {
			r.StepOut()
		}
		cont := isContainer(t) && !o.Null
		if !cont {
			if d.Refused&1 != 0 {
				r.StepIn()
			}
			if d.Refused&2 != 0 {
				w.wrongAccessors(t, false)
			}
			if d.Refused&16 != 0 {
				w.wrongAccessors(t, true)
			}
			read := d.Act == 0
			if isContainer(t) {
				o.Val = "nil"
			} else if read {
				o.Val = w.scalar(t)
				if d.Refused&32 != 0 {
					// the same accessor once more: it must answer the same (reading a value is not consuming it)
					if again := w.scalar(t); again != o.Val {
						o.Val += "!second-read=" + again
					}
					// ... and so must the descriptive calls after the value was read
					if r.Type() != t || r.IsNull() != o.Null {
						o.Val += "!type-or-null-changed-after-read"
					}
					if fn2, err := r.FieldName(); err == nil && ((fn2 == nil) != (fn == nil) || (fn2 != nil && w.tok(fn2) != o.Field)) {
						o.Val += "!field-name-changed-after-read"
					}
					if as2, err := r.Annotations(); err == nil && w.anns(as2) != o.Annots {
						o.Val += "!annotations-changed-after-read"
					}
				}
			}
			w.out.Lines = append(w.out.Lines, o.Line(read))
			if w.build {
				nodes = append(nodes, &Node{Obs: o})
			}
		} else {
			if d.Refused&2 != 0 {
				w.wrongAccessors(t, false)
			}
			if d.Refused&16 != 0 {
				w.wrongAccessors(t, true)
			}
			o.Val = "container"
			w.out.Lines = append(w.out.Lines, o.Line(true))
			node := &Node{Obs: o, Container: true}
			switch d.Act {
			case 1: // skip
			default:
				if err := r.StepIn(); err != nil {
					w.fail("StepIn", err)
				}
				if d.Refused&8 != 0 {
					r.StepIn()
				}
				lim := -1
				if d.Act == 2 {
					lim = d.K
				}
				node.Kids = w.level(depth+1, lim)
				if err := r.StepOut(); err != nil {
					w.fail("StepOut", err)
				}
				// the reader's answers between StepOut and the next Next
				ao := Obs{Depth: depth, Type: r.Type().String(), Null: r.IsNull()}
				if fn, err := r.FieldName(); err == nil && fn != nil {
					ao.Field = w.tok(fn)
				} else if err != nil {
					ao.Field = "error"
				}
				if as, err := r.Annotations(); err == nil {
					ao.Annots = w.anns(as)
				} else {
					ao.Annots = "error"
				}
				node.AfterOut = "after-stepout:" + ao.Line(false)
				w.out.Lines = append(w.out.Lines, node.AfterOut)
				if d.Refused&(2|16) != 0 {
					// calls the reader must refuse here (there is no current value): results ignored
					r.StepIn()
					w.wrongAccessors(ion.NoType, true)
				}
			}
			if w.build {
				nodes = append(nodes, node)
			}
		}
		if depth == 0 && w.keepID {
			id := int64(-1)
			if st := r.SymbolTable(); st != nil {
				id = int64(st.MaxID())
			}
			w.out.MaxIDs = append(w.out.MaxIDs, id)
		}
	}
}

func ionFrame() string {
	pcs := make([]uintptr, 64)
	n := runtime.Callers(3, pcs)
	frames := runtime.CallersFrames(pcs[:n])
	for {
		f, more := frames.Next()
		if strings.Contains(f.Function, "amzn/ion-go/ion.") {
			name := f.Function[strings.LastIndex(f.Function, "/")+1:]
			return name
		}
		if !more {
			break
		}
	}
	return "?"
}

// panicClass reduces a panic message to a stable class (numbers removed).
func PanicClass(msg string) string {
	var sb strings.Builder
	lastHash := false
	for i := 0; i < len(msg); i++ {
		c := msg[i]
		if c >= '0' && c <= '9' {
			if !lastHash {
				sb.WriteByte('#')
				lastHash = true
			}
			continue
		}
		lastHash = false
		sb.WriteByte(c)
	}
	s := sb.String()
	if len(s) > 80 {
		s = s[:80]
	}
	return s
}

// ReadCase is an explicit, replayable reader case.
type ReadCase struct {
	Data    []byte         `json:"data"`
	Plan    sim.ReadPlan   `json:"plan"`
	Prog    Program        `json:"prog"`
	Catalog *model.Catalog `json:"catalog,omitempty"`
	// SimCatalog uses the simulated catalog (any set of versions) instead of ion.NewCatalog.
	SimCatalog bool `json:"sim_catalog,omitempty"`
	KeepMaxID  bool `json:"keep_max_id,omitempty"`
	BuildTree  bool `json:"-"`
	// KeepSID makes the trace show a symbol token's LocalSID next to its text (scenarios whose reference is ion-go's own
	// traversal compare whole tokens; the model-based ones compare by text, then by ID when the text is unknown).
	KeepSID bool `json:"keep_sid,omitempty"`
	// Seekable offers the reader an io.Seeker as well (whole delivery only).
	Seekable bool `json:"seekable,omitempty"`
	// Cat, when set, is used as is (a shared catalog object of the concurrent scenario) instead of Catalog.
	Cat ion.Catalog `json:"-"`
}

// RunRead runs a reader case against ion-go.
func RunRead(c ReadCase) *Outcome {
	src := sim.NewSource(c.Data, c.Plan)
	return RunReadSrc(c, src, nil)
}

// RunReadSrc is RunRead with a caller-supplied Source (and optional catalog yield hook).
func RunReadSrc(c ReadCase, src *sim.Source, yield func(string)) (out *Outcome) {
	out = &Outcome{}
	defer func() {
		out.Reads, out.Delivered, out.ReadsAfterEnd = src.Reads, src.Delivered, src.ReadsAfterEnd
		out.FaultFired = src.FaultFired()
		out.SrcHash = src.Hash
		out.Cuts = src.Cuts
	}()
	var r ion.Reader
	w := &walker{sid: c.KeepSID, prog: c.Prog, out: out, build: c.BuildTree || c.Prog.Kind == "full", keepID: c.KeepMaxID}
	func() {
		defer func() {
			if p := recover(); p != nil {
				switch v := p.(type) {
				case stop:
				case sim.Spin:
					out.Spin = true
				default:
					out.Panic = fmt.Sprint(v)
					out.Frame = ionFrame()
				}
			}
		}()
		cat := c.Cat
		if cat == nil {
			cat = BuildCatalog(c.Catalog, c.SimCatalog, yield)
		}
		if c.Seekable {
			r = ion.NewReaderCat(sim.SeekSource{Source: src}, cat)
		} else {
			r = ion.NewReaderCat(src, cat)
		}
		w.r = r
		nodes := w.level(0, -1)
		if w.build {
			out.Tree = nodes
		}
		if out.Err == "" && c.Prog.Kind == "nav" {
			// at the end of the stream: a refused StepOut when the program issues refused calls at all, then Next once more; a
			// reader that has reported the end keeps reporting it
			for _, d := range c.Prog.Decisions {
				if d.Refused&4 != 0 {
					r.StepOut()
					break
				}
			}
			if r.Next() {
				out.Lines = append(out.Lines, "after-end|Next()==true: "+r.Type().String())
			}
		}
		if err := r.Err(); err != nil {
			out.Err = err.Error()
			out.ErrAt = "Err"
		}
	}()
	// Permanence of the error.
	if r != nil && out.Panic == "" && !out.Spin {
		func() {
			defer func() {
				if p := recover(); p != nil {
					if _, ok := p.(sim.Spin); ok {
						out.Spin = true
						return
					}
					out.Panic = fmt.Sprint(p)
					out.Frame = ionFrame()
				}
			}()
			if e0 := r.Err(); e0 != nil {
				out.StickyChecked = true
				out.StickyOK = true
				for i := 0; i < 3; i++ {
					if r.Next() {
						out.StickyOK = false
						out.StickyDetail = fmt.Sprintf("Next()==true on call %d after Err()=%q", i+1, e0.Error())
						break
					}
					e1 := r.Err()
					if e1 == nil {
						out.StickyOK = false
						out.StickyDetail = fmt.Sprintf("Err() became nil after %q", e0.Error())
						break
					}
					if e1.Error() != e0.Error() {
						out.StickyOK = false
						out.StickyDetail = fmt.Sprintf("Err() changed from %q to %q", e0.Error(), e1.Error())
						break
					}
				}
			}
		}()
	}
	return out
}

// Expected computes the trace a program must observe, from the reference tree of a plain full traversal.
func Expected(tree []*Node, prog Program) []string {
	e := &expecter{prog: prog}
	e.level(tree, 0, -1)
	return e.lines
}

type expecter struct {
	prog  Program
	idx   int
	lines []string
}

func (e *expecter) decision() Decision {
	switch e.prog.Kind {
	case "full":
		return Decision{}
	case "topskip":
		return Decision{Act: 1}
	}
	if len(e.prog.Decisions) == 0 {
		return Decision{}
	}
	d := e.prog.Decisions[e.idx%len(e.prog.Decisions)]
	e.idx++
	return d
}

func (e *expecter) level(nodes []*Node, depth int, limit int) {
	count := 0
	for _, n := range nodes {
		if limit >= 0 && count >= limit {
			return
		}
		count++
		d := e.decision()
		if !n.Container {
			read := d.Act == 0
			if isContainerName(n.Type) {
				// null container: value is always "nil" but only shown when read
			}
			e.lines = append(e.lines, n.Obs.Line(read))
			continue
		}
		e.lines = append(e.lines, n.Obs.Line(true))
		if d.Act == 1 {
			continue
		}
		lim := -1
		if d.Act == 2 {
			lim = d.K
		}
		e.level(n.Kids, depth+1, lim)
		e.lines = append(e.lines, n.AfterOut)
	}
	if limit >= 0 && count >= limit {
		return
	}
	e.lines = append(e.lines, fmt.Sprintf("%d|end", depth))
}

func isContainerName(t string) bool { return t == "list" || t == "sexp" || t == "struct" }

package scenario

import (
	"bytes"
	"encoding/json"
	"fmt"
	"io"
	"os"
	"os/exec"
	"strings"
	"sync"

	"ionsim/drive"
	"ionsim/gen"
	"ionsim/model"
	"ionsim/prng"
	"ionsim/render"
	"ionsim/sim"
)

// concurrent decides C18: independent readers, writers and marshal calls can run concurrently.
//
// Part A (default worker mode): the tasks run under sim.Sched — parked goroutines, exactly one runnable, the
// next one chosen from the PRNG at every seam call; one pick list is one interleaving, replayable.
// Part B (IONSIM_C18_MODE=free, in a -race build): the same seeded task sets run with no harness
// synchronisation between start and join; the race detector is the oracle for sub-call interference.
type concurrent struct{}

func init() { Register(concurrent{}) }

func (concurrent) Property() string { return "C18" }
func (concurrent) Name() string     { return "concurrent" }
func (concurrent) Level() string    { return "exploration" }
func (concurrent) Indices(tier string) int {
	if FreeMode() {
		if tier == "thorough" {
			return 12000
		}
		return 1120
	}
	if tier == "thorough" {
		return 160000
	}
	return 9000
}

// FreeMode reports whether this process runs part B (free-running tasks for the race detector).
func FreeMode() bool { return os.Getenv("IONSIM_C18_MODE") == "free" }

func (concurrent) Rule() string {
	return "Per run index: a shared world (8 shared symbol tables in several versions, 0..3 shared Adjust()ed views, one ion.NewCatalog, " +
		"V1SystemSymbolTable, 18 static shared Go types (structs, embedded, maps, a pointer-receiver Marshaler met as map value / slice element / pointer / field, annotation wrappers over int, int64, float32, float64, string, slice, array, interface) plus two dynamic struct types per index out of 16383 built with reflect.StructOf, a catalog that in 2 of 3 indices holds only a subset of the tables — version skew) and 2..6 seeded caller tasks, each with its own Readers / Writers / Encoders / Decoders / " +
		"Marshal / Unmarshal calls: write a document through text, pretty or binary writers importing shared tables (or a fixed local " +
		"table over them); read and decode streams whose local tables import the shared tables with smaller, equal, larger or absent " +
		"max_id through the shared catalog (Adjust, FindExact/FindLatest, placeholder and append paths); Encode / Marshal* / Unmarshal / " +
		"DecodeTo values of the shared Go types; String / WriteTo / Find* / Adjust / builder / token helpers on the shared tables. " +
		"Part A: each task set runs under 4 seeded schedules (uniform, sticky, always-switch, starve-one, sequential, reverse) of the " +
		"parked-goroutine scheduler with a yield at every Source.Read, Sink.Write and catalog lookup; every task's output must equal its " +
		"solo baseline (same task alone on a fresh world) and a public-API digest of all shared objects must be unchanged at every yield " +
		"(past step 3000 of a run: at every 32nd) and at the end. Part B: the same task sets run free (no harness synchronisation between start and join) 3 times each in a " +
		"-race build at GOMAXPROCS 16 and 2; any race report fails, and outputs are compared with the solo baseline as well. One index " +
		"in 16 (quick tier: 32) also takes the solo baseline of every task that involves Go types in a fresh process (`ionsim solo`): the literal " +
		"'run alone', free of whatever package-level state (type-keyed registries, lookup tables) earlier tasks left in the worker. " +
		"Distinct by hash of (task set, pick list); non-trivial = at least one switch away from a still-runnable task."
}
func (concurrent) Assumptions() []string {
	return []string{
		"part A interleaves at seam-call granularity only; a parked hand-off creates a happens-before edge, so it cannot see data races — that is part B's job",
		"part B's interleaving is the Go runtime's and is not controlled; its verdict does not depend on it because nothing orders the tasks between start and join unless ion-go does, but the race detector keeps a bounded history (4 shadow cells per 8 bytes) and can miss a race",
		"the solo baseline is ion-go's own output (the property is stated relative to it); tasks avoid Go map iteration order (maps of at most one key, or sorted encoding)",
		"the shared-object digest uses public observations only",
	}
}
func (concurrent) Components() map[string]string {
	return map[string]string{
		"ion package (symbol tables, basicCatalog, Readers, Writers, Encoder, Decoder, Marshal*, Unmarshal, fieldsFor)": "real code from /repo working tree",
		"io.Reader / io.Writer under each task": "stub: sim.Source / sim.Sink (yield points)",
		"ion.Catalog":                           "real ion.NewCatalog, shared; each task sees it through a thin per-task wrapper that yields before delegating",
		"goroutine scheduling":                  "part A: sim.Sched (seeded, replayable); part B: real Go scheduler under the race detector",
	}
}

type concCase struct {
	World drive.CWorld  `json:"world"`
	Tasks []drive.CTask `json:"tasks"`
	// Picks is the explicit interleaving of part A (nil = sequential).
	Picks  []int  `json:"picks,omitempty"`
	Policy string `json:"policy,omitempty"`
	// Free marks a part B case (free-running under the race detector); Reps is how often the set is run.
	Free bool `json:"free,omitempty"`
	Reps int  `json:"reps,omitempty"`
	// NoYieldDigest: do not observe the shared objects at yield points (only at the end), so that the observer does
	// not initialise lazily built state ahead of the tasks.
	NoYieldDigest bool `json:"no_yield_digest,omitempty"`
	// Burst marks the cold-start task set of a part B process (regenerated by concBurst, not concGen).
	Burst bool `json:"burst,omitempty"`
	// Pristine: compare with solo baselines taken in fresh processes as well.
	Pristine bool `json:"pristine,omitempty"`
	// Prelude: the task sets this worker process ran just before (only kept for the fresh-process clause, whose point
	// is what earlier tasks left behind in the process); replay runs them first, minimisation drops what is not needed.
	Prelude []concCase `json:"prelude,omitempty"`
}

// concHistory holds the last few task sets run by this process.
var concHistory []concCase

const concHistoryLen = 3

// concGoTasks holds every task involving Go types that this process has run so far (up to 400): what such a task leaves in
// package-level state stays for the life of the process, so the culprit of a fresh-process difference can be any of them.
var concGoTasks concCase

func rememberConc(cs concCase) {
	cs.Prelude, cs.Picks = nil, nil
	concHistory = append(concHistory, cs)
	if len(concHistory) > concHistoryLen {
		concHistory = concHistory[len(concHistory)-concHistoryLen:]
	}
	if concGoTasks.World.Tables == nil {
		concGoTasks.World = drive.CWorld{Tables: cs.World.Tables}
	}
	for _, t := range cs.Tasks {
		switch t.Kind {
		case "marshal", "encode", "unmarshal", "decode":
			if len(concGoTasks.Tasks) < 400 {
				t.Imports = nil
				concGoTasks.Tasks = append(concGoTasks.Tasks, t)
			}
		}
	}
}

// ---------------------------------------------------------------------------------------------------------
// generation

func concWorld(r *prng.Rand) drive.CWorld {
	w := drive.CWorld{Tables: append([]model.Shared(nil), ctxPool...)}
	for k := r.Intn(4); k > 0; k-- {
		t := r.Intn(len(w.Tables))
		n := len(w.Tables[t].Symbols)
		w.Views = append(w.Views, drive.CView{Table: t, MaxID: uint64(r.Intn(n + 4))})
	}
	for k := r.Intn(3); k > 0; k-- {
		var sl []int
		for j := r.Range(1, 3); j > 0; j-- {
			sl = append(sl, r.Intn(len(w.Tables)))
		}
		w.Slices = append(w.Slices, sl)
	}
	if r.Chance(2, 3) {
		// version skew: the shared catalog holds only a subset of the tables the streams were written against
		w.CatTables = []int{}
		for i := range w.Tables {
			if r.Chance(3, 5) {
				w.CatTables = append(w.CatTables, i)
			}
		}
	}
	return w
}

func concImports(r *prng.Rand, w drive.CWorld) []int {
	if len(w.Slices) > 0 && r.Chance(1, 3) {
		return []int{drive.SliceRef - r.Intn(len(w.Slices))} // one of the shared slices, passed as it is
	}
	var out []int
	for k := r.Intn(4); k > 0; k-- {
		if len(w.Views) > 0 && r.Chance(1, 4) {
			out = append(out, -1-r.Intn(len(w.Views)))
		} else {
			out = append(out, r.Intn(len(w.Tables)))
		}
	}
	return out
}

func concWriterKind(r *prng.Rand) string {
	return []string{"text", "pretty", "binary", "binary", "binary-lst"}[r.Intn(5)]
}

func recordModel(r *prng.Rand) *model.Value {
	word := func() string { return ctxLocalTexts[r.Intn(len(ctxLocalTexts))] }
	st := model.NewSeq(model.Struct)
	add := func(name string, v *model.Value) { st.Kids = append(st.Kids, v.Named(model.T(name))) }
	add("id", model.NewInt(int64(r.Intn(100000))))
	add("name", model.NewString(word()))
	if r.Bool() {
		l := model.NewSeq(model.List)
		for k := r.Intn(4); k > 0; k-- {
			l.Kids = append(l.Kids, model.NewString(word()))
		}
		add("tags", l)
	}
	if r.Bool() {
		add("pt", model.NewSeq(model.Struct, model.NewInt(int64(r.Intn(50))).Named(model.T("x")), model.NewInt(int64(r.Intn(50))).Named(model.T("y")), model.NewString(word()).Named(model.T("label"))))
	}
	if r.Bool() {
		add("attrs", model.NewSeq(model.Struct, model.NewInt(int64(r.Intn(9))).Named(model.T(word())), model.NewInt(int64(r.Intn(9))).Named(model.T("zz"))))
	}
	if r.Bool() {
		add("sym", model.NewSymbol(model.T(word())))
	}
	if r.Bool() {
		add("flag", model.NewBool(r.Bool()))
	}
	if r.Bool() {
		add("raw", model.NewLob(model.Blob, []byte(word())))
	}
	if r.Bool() {
		add("any", model.NewSeq(model.List, model.NewInt(1), model.NewSymbol(model.T(word())), model.NewString(word())))
	}
	if r.Bool() {
		add("ratio", model.NewFloat(float64(r.Intn(100))/4))
	}
	if r.Chance(1, 4) {
		add("unknown_field", model.NewInt(5))
	}
	if r.Chance(1, 3) {
		st.Annots = append(st.Annots, model.T(word()))
	}
	return st
}

// goTypeData renders a stream of values shaped like the shared Go type typ.
func goTypeData(r *prng.Rand, typ int, text bool) []byte {
	var vals []*model.Value
	n := r.Range(1, 3)
	for k := 0; k < n; k++ {
		var v *model.Value
		if typ >= drive.DynBase {
			word := func() string { return ctxLocalTexts[r.Intn(len(ctxLocalTexts))] }
			v = model.NewSeq(model.Struct)
			for _, f := range drive.DynFields(typ) {
				var fv *model.Value
				switch f.Kind {
				case "int":
					fv = model.NewInt(int64(r.Intn(900)))
				case "string":
					fv = model.NewString(word())
				case "symbol":
					fv = model.NewSymbol(model.T(word()))
				case "strings":
					fv = model.NewSeq(model.List, model.NewString(word()), model.NewString(word()))
				case "point", "ppoint":
					fv = model.NewSeq(model.Struct, model.NewInt(int64(r.Intn(50))).Named(model.T("x")), model.NewInt(int64(r.Intn(50))).Named(model.T("y")))
				case "map":
					fv = model.NewSeq(model.Struct, model.NewInt(int64(r.Intn(9))).Named(model.T(word())))
				case "bool":
					fv = model.NewBool(r.Bool())
				case "float":
					fv = model.NewFloat(float64(r.Intn(64)) / 4)
				case "bytes":
					fv = model.NewLob(model.Blob, []byte(word()))
				default:
					fv = model.NewSeq(model.List, model.NewInt(1), model.NewSymbol(model.T(word())))
				}
				if r.Chance(7, 8) {
					v.Kids = append(v.Kids, fv.Named(model.T(f.Tag)))
				}
			}
			vals = append(vals, v)
			continue
		}
		switch typ % drive.CTypeCount {
		case 0:
			v = model.NewSeq(model.Struct, model.NewInt(int64(r.Intn(50))).Named(model.T("x")), model.NewInt(int64(r.Intn(50))).Named(model.T("y")))
		case 1, 3:
			v = recordModel(r)
		case 2:
			l := model.NewSeq(model.List)
			for q := r.Intn(3); q > 0; q-- {
				l.Kids = append(l.Kids, recordModel(r))
			}
			v = model.NewSeq(model.Struct, model.NewInt(3).Named(model.T("x")), l.Named(model.T("recs")),
				model.NewSeq(model.Sexp, model.NewSymbol(model.T("dup")), model.NewInt(2)).Named(model.T("sx")))
		case 4:
			l := model.NewSeq(model.List)
			for q := r.Intn(3); q > 0; q-- {
				l.Kids = append(l.Kids, recordModel(r))
			}
			v = l
		case 5:
			v = model.NewSeq(model.Struct, recordModel(r).Named(model.T("k")), model.NewInt(1).Named(model.T("a1")))
		case 6:
			v = model.NewSeq(model.Struct, model.NewSeq(model.Struct, model.NewInt(int64(r.Intn(90))).Named(model.T("deg"))).Named(model.T("k9")))
		case 7:
			v = model.NewSeq(model.List, model.NewSeq(model.Struct, model.NewInt(int64(r.Intn(90))).Named(model.T("deg"))))
		case 8:
			v = model.NewSeq(model.Struct, model.NewInt(int64(r.Intn(90))).Named(model.T("deg")))
		case 9:
			t := func() *model.Value {
				return model.NewSeq(model.Struct, model.NewInt(int64(r.Intn(90))).Named(model.T("deg")))
			}
			v = model.NewSeq(model.Struct, t().Named(model.T("t")), t().Named(model.T("p")), model.NewSeq(model.List, t()).Named(model.T("l")))
		case 19:
			v = model.NewSeq(model.Struct, model.NewString("n").Named(model.T("name")), model.NewInt(3).Named(model.T("age")))
		case 18:
			v = model.NewSeq(model.Struct, model.NewInt(0).Named(model.T("v")))
			for d := r.Range(100, 300); d > 0; d-- {
				v = model.NewSeq(model.Struct, model.NewInt(int64(d)).Named(model.T("v")), v.Named(model.T("next")))
			}
			v.Field = nil
		default:
			// annotated scalars and sequences for the annotation wrappers (the value kind matches the wrapper most of the time)
			k := typ % drive.CTypeCount
			if r.Chance(1, 5) {
				k = 10 + r.Intn(8)
			}
			switch k {
			case 10, 11:
				v = model.NewInt(int64(r.Intn(1000)))
			case 12, 13:
				v = model.NewFloat(float64(r.Intn(64)) / 4)
			case 14:
				v = model.NewString(ctxLocalTexts[r.Intn(len(ctxLocalTexts))])
			case 15, 16:
				v = model.NewSeq(model.List, model.NewInt(int64(r.Intn(9))), model.NewInt(int64(r.Intn(9))))
			default:
				v = model.NewInt(int64(r.Intn(9)))
			}
			v.Annots = append(v.Annots, model.T(ctxLocalTexts[r.Intn(len(ctxLocalTexts))]))
		}
		vals = append(vals, v)
	}
	if text {
		return render.Text(render.Values(vals), render.TextOpts{}).Bytes
	}
	return render.Binary(render.Values(vals), render.BinOpts{Auto: true}).Bytes
}

func concPlan(r *prng.Rand, n int) sim.ReadPlan {
	switch r.Intn(4) {
	case 0:
		return planWhole()
	case 1:
		return planBytes()
	case 2:
		return planRandom(r, n, false)
	}
	p := planRandom(r, 40, false)
	p.Tail = r.Range(1, 16)
	return p
}

var concTableOps = []string{"string", "writeto", "find", "byid", "adjust", "builder", "lstfind", "exact", "latest", "token", "tokensid", "system"}

func concTask(r *prng.Rand, w drive.CWorld, cat *model.Catalog, typePool []int) drive.CTask {
	pickType := func() int {
		if r.Chance(1, 40) {
			return 18 // the chain type: values that nest hundreds of levels deep
		}
		if r.Bool() {
			return typePool[r.Intn(len(typePool))]
		}
		return r.Intn(drive.CTypeCount)
	}
	switch r.Intn(9) {
	case 0, 1: // write a document
		o := gen.Swarm(r)
		o.NoSID = true
		o.MaxDepth = r.Range(1, 4)
		vals := gen.Sanitize(gen.Doc(r, o, 4))
		if len(vals) > 0 && r.Chance(1, 6) {
			// one value 17..70 containers deep (per-depth state of the writers, pretty-printer indentation)
			v := vals[0]
			for d := r.Range(17, 70); d > 0; d-- {
				kind := []model.Kind{model.List, model.Sexp, model.Struct}[r.Intn(3)]
				if kind == model.Struct {
					v.Field = &model.Sym{Text: "a1", HasText: true}
				} else {
					v.Field = nil
				}
				v = model.NewSeq(kind, v)
			}
			v.Field = nil
			vals[0] = v
		}
		// pull symbol texts toward the shared tables so that imports matter
		texts := []string{"a1", "a4", "a8", "b1", "dup", "c12", "d2", "x", "zed"}
		var fix func(v *model.Value)
		fix = func(v *model.Value) {
			if v.Field != nil && v.Field.HasText && r.Bool() {
				v.Field.Text = texts[r.Intn(len(texts))]
			}
			for i := range v.Annots {
				if v.Annots[i].HasText && r.Bool() {
					v.Annots[i].Text = texts[r.Intn(len(texts))]
				}
			}
			if v.Kind == model.Symbol && !v.IsNull && v.Sym != nil && v.Sym.HasText && r.Bool() {
				v.Sym.Text = texts[r.Intn(len(texts))]
			}
			for _, k := range v.Kids {
				fix(k)
			}
		}
		for _, v := range vals {
			fix(v)
		}
		t := drive.CTask{Kind: "write", Writer: concWriterKind(r), Imports: concImports(r, w), Ops: drive.DocOps(vals)}
		if r.Chance(1, 4) {
			// annotations taken from the shared token list (a prefix of it, passed as it is), plus one of the task's own
			own := model.Sym{Text: []string{"alpha", "beta", "gamma"}[r.Intn(3)], HasText: true}
			t.Ops = append([]drive.WOp{{Op: "annots-shared", T: model.Kind(r.Range(1, 4))}, {Op: "annot", Sym: &own}, {Op: "int", V: model.NewInt(1)}}, t.Ops...)
		}
		if r.Chance(1, 4) && len(t.Ops) > 0 {
			// a caller mistake somewhere in the sequence: the call fails, the writer stays failed, and the messages it
			// reports from then on are part of this task's output
			bad := []drive.WOp{{Op: "endlist"}, {Op: "endsexp"}, {Op: "endstruct"}, {Op: "field", Sym: &model.Sym{Text: "a1", HasText: true}},
				{Op: "beginstruct"}, {Op: "finish"}}[r.Intn(6)]
			at := r.Intn(len(t.Ops) + 1)
			ops := append([]drive.WOp{}, t.Ops[:at]...)
			ops = append(ops, bad)
			if bad.Op == "beginstruct" {
				ops = append(ops, drive.WOp{Op: []string{"int", "string", "null"}[r.Intn(3)], V: model.NewInt(1)}) // a value without a field name
				if ops[len(ops)-1].Op == "string" {
					ops[len(ops)-1].V = model.NewString("s")
				}
			}
			t.Ops = append(ops, t.Ops[at:]...)
		}
		if t.Writer == "binary-lst" {
			t.LSTSymbols = append(symbolTexts(vals), "extra")
		}
		return t
	case 2, 3: // read a history of tables importing the shared tables, or a document of every scalar kind
		if r.Chance(1, 3) {
			// readers of general documents: numbers, decimals, timestamps with assorted offsets, lobs, nested containers
			o := gen.Swarm(r)
			o.NoSID = true
			vals := gen.Sanitize(gen.Doc(r, o, 5))
			for k := r.Intn(3); k > 0; k-- {
				ts := gen.TS(r, o)
				ts.Prec = model.Second
				ts.Year = r.Range(1900, 2100)
				ts.FracDigits, ts.Frac = 0, ""
				ts.Unknown = false
				ts.Offset = []int{-720, -480, -1, 1, 60, 90, 330, 345, 600, 840}[r.Intn(10)]
				vals = append(vals, model.NewTS(*ts))
			}
			var out *render.Out
			if r.Bool() {
				out = render.Binary(render.Values(vals), render.SwarmBin(r.Fork()))
			} else {
				out = render.Text(render.Values(vals), render.SwarmText(r.Fork()))
			}
			kind := "read"
			if r.Bool() {
				kind = "decode"
			}
			return drive.CTask{Kind: kind, Data: out.Bytes, Plan: concPlan(r, len(out.Bytes))}
		}
		binary := r.Bool()
		events := genHistory(r.Fork(), cat, binary)
		ex := expectHistory(events, cat)
		var out *render.Out
		if binary {
			out = render.Binary(ex.items, render.BinOpts{})
		} else {
			out = render.Text(ex.items, render.TextOpts{})
		}
		kind := "read"
		if r.Chance(1, 3) {
			kind = "decode"
		}
		return drive.CTask{Kind: kind, Data: out.Bytes, Plan: concPlan(r, len(out.Bytes))}
	case 4: // encode Go values through an Encoder over a sink
		return drive.CTask{Kind: "encode", Writer: concWriterKind(r), Imports: concImports(r, w), LSTSymbols: []string{"x", "y", "label", "id", "name", "tags", "pt", "attrs", "when", "amount", "raw", "sym", "any", "flag", "ratio", "big", "recs", "index", "sx", "text", "hello", "k9", "zed", "q_1", "é", "a b", "$ion", "a1", "a4", "b1", "dup", "c12", "d2"},
			Type: pickType(), ValSeed: r.Uint64(), Count: r.Range(1, 3)}
	case 5: // Marshal*
		return drive.CTask{Kind: "marshal", Writer: concWriterKind(r), Imports: concImports(r, w), LSTSymbols: []string{"x", "y", "label", "id", "name", "tags", "pt", "attrs", "when", "amount", "raw", "sym", "any", "flag", "ratio", "big", "recs", "index", "sx", "text", "hello", "k9", "zed", "q_1", "é", "a b", "$ion", "a1", "a4", "b1", "dup", "c12", "d2"},
			Type: pickType(), ValSeed: r.Uint64(), Count: r.Range(1, 4)}
	case 6, 7: // Unmarshal / DecodeTo into shared types
		typ := pickType()
		data := goTypeData(r, typ, r.Chance(2, 3))
		t := drive.CTask{Kind: "unmarshal", Data: data, Type: typ, Count: 3, Plan: concPlan(r, len(data)), Imports: concImports(r, w)}
		if r.Chance(1, 3) {
			t.Plan = sim.ReadPlan{Name: "direct"}
		}
		return t
	default: // table / catalog / token helpers
		t := drive.CTask{Kind: "tables"}
		for k := r.Range(2, 10); k > 0; k-- {
			op := drive.CTableOp{Op: concTableOps[r.Intn(len(concTableOps))], Table: r.Intn(len(w.Tables)), N: uint64(r.Intn(16))}
			if len(w.Views) > 0 && r.Chance(1, 4) {
				op.Table = -1 - r.Intn(len(w.Views))
			}
			switch op.Op {
			case "exact", "latest":
				op.Text = []string{"A", "B", "C", "D", "nosuch"}[r.Intn(5)]
				op.N = uint64(r.Intn(5))
			default:
				op.Text = []string{"a1", "a4", "a8", "b1", "dup", "c12", "d2", "x", "name", "$ion", ""}[r.Intn(11)]
			}
			t.TOps = append(t.TOps, op)
		}
		return t
	}
}

// concBurst is the task set a part B process runs first, while everything ion-go initialises lazily is still cold: two
// of every kind of reader, decoder and marshal task, over documents rich in timestamps with fractional seconds and
// offsets, decimals, big integers and symbols, so that pairs of tasks meet on whatever each code path touches first.
func concBurst(seed uint64, i int) concCase {
	r := prng.New(prng.Mix(seed, 1819, uint64(i)))
	w := concWorld(r.Fork())
	cs := concCase{World: w}
	rich := func(rr *prng.Rand) []*model.Value {
		o := gen.DefaultOpts()
		o.NoSID = true
		o.MaxDepth = 3
		vals := gen.Sanitize(gen.Doc(rr, o, 4))
		for k := 0; k < 4; k++ {
			ts := gen.TS(rr, o)
			ts.Prec = model.Fraction
			ts.Year = rr.Range(1900, 2100)
			ts.FracDigits = rr.Range(1, 8)
			ts.Frac = ""
			for d := 0; d < ts.FracDigits; d++ {
				ts.Frac += string(rune('0' + rr.Intn(10)))
			}
			ts.Unknown = false
			ts.Offset = []int{-480, -1, 0, 1, 90, 330, 600}[rr.Intn(7)]
			vals = append(vals, model.NewTS(*ts), &model.Value{Kind: model.Decimal, Dec: gen.Dec(rr)}, model.NewBig(gen.BigInt(rr)))
		}
		return vals
	}
	for k := 0; k < 2; k++ {
		vals := rich(r.Fork())
		bin := render.Binary(render.Values(vals), render.BinOpts{Auto: true}).Bytes
		txt := render.Text(render.Values(vals), render.TextOpts{}).Bytes
		cs.Tasks = append(cs.Tasks,
			drive.CTask{Kind: "read", Data: bin, Plan: planWhole()},
			drive.CTask{Kind: "read", Data: txt, Plan: planWhole()},
			drive.CTask{Kind: "decode", Data: bin, Plan: planWhole()},
			drive.CTask{Kind: "marshal", Writer: []string{"text", "binary"}[k], Type: 1, ValSeed: r.Uint64(), Count: 2},
			drive.CTask{Kind: "write", Writer: []string{"pretty", "binary"}[k], Ops: drive.DocOps(vals)})
	}
	return cs
}

var concFirstFreeIndex = true

func concGen(seed uint64, i int) concCase {
	r := prng.New(prng.Mix(seed, 18, uint64(i)))
	w := concWorld(r.Fork())
	cat := &model.Catalog{Tables: w.Tables}
	cs := concCase{World: w}
	n := r.Range(2, 6)
	tr := r.Fork()
	// a small pool of dynamic struct types per run index, so that several tasks meet on a type nobody has used before
	typePool := []int{drive.DynBase + 1 + tr.Intn(1<<14-1), drive.DynBase + 1 + tr.Intn(1<<14-1)}
	for k := 0; k < n; k++ {
		cs.Tasks = append(cs.Tasks, concTask(tr, w, cat, typePool))
	}
	if tr.Chance(1, 5) {
		// the builder's owner keeps adding symbols while others write with the table built from it earlier
		cs.Tasks = append(cs.Tasks, drive.CTask{Kind: "builder", Count: tr.Range(3, 40)})
		for k := tr.Range(1, 2); k > 0; k-- {
			if tr.Bool() {
				cs.Tasks = append(cs.Tasks, drive.CTask{Kind: "marshal", Writer: "binary-built", Type: tr.Intn(3), ValSeed: tr.Uint64(), Count: tr.Range(1, 4)})
			} else {
				cs.Tasks = append(cs.Tasks, drive.CTask{Kind: "encode", Writer: "binary-built", Type: tr.Intn(3), ValSeed: tr.Uint64(), Count: tr.Range(1, 3)})
			}
		}
	}
	return cs
}

// ---------------------------------------------------------------------------------------------------------
// policies: the pick at step k is a pure function of pre-drawn entropy, the runnable set and the last task

var concPolicies = []string{"uniform", "sticky", "switchy", "starve", "sequential", "reverse"}

type policyPick struct {
	kind    string
	entropy []uint32
	victim  int
}

func (p *policyPick) Pick(step int, runnable []int, last int) int {
	e := int(p.entropy[step%len(p.entropy)])
	has := func(t int) bool {
		for _, r := range runnable {
			if r == t {
				return true
			}
		}
		return false
	}
	switch p.kind {
	case "sequential":
		return runnable[0]
	case "reverse":
		return runnable[len(runnable)-1]
	case "sticky":
		if last >= 0 && has(last) && e%8 != 0 {
			return last
		}
	case "switchy":
		if len(runnable) > 1 && last >= 0 && has(last) {
			others := make([]int, 0, len(runnable))
			for _, r := range runnable {
				if r != last {
					others = append(others, r)
				}
			}
			return others[(e>>3)%len(others)]
		}
	case "starve":
		if len(runnable) > 1 && has(p.victim) && e%16 != 0 {
			others := make([]int, 0, len(runnable))
			for _, r := range runnable {
				if r != p.victim {
					others = append(others, r)
				}
			}
			return others[(e>>4)%len(others)]
		}
	}
	return runnable[(e>>3)%len(runnable)]
}

// ---------------------------------------------------------------------------------------------------------
// execution

func soloOutputs(cs concCase) []string {
	out := make([]string, len(cs.Tasks))
	for i, t := range cs.Tasks {
		out[i] = drive.RunCTask(drive.BuildIonWorld(cs.World), t, nil)
	}
	return out
}

func firstDiff(a, b string) string {
	la, lb := strings.Split(a, "\n"), strings.Split(b, "\n")
	for i := 0; i < len(la) || i < len(lb); i++ {
		var x, y string
		if i < len(la) {
			x = la[i]
		}
		if i < len(lb) {
			y = lb[i]
		}
		if x != y {
			return fmt.Sprintf("line %d: got %q, alone %q", i, trunc(x, 160), trunc(y, 160))
		}
	}
	return "(no difference)"
}

func digestLabel(a, b string) string {
	la, lb := strings.Split(a, "\n"), strings.Split(b, "\n")
	for i := 0; i < len(la) && i < len(lb); i++ {
		if la[i] != lb[i] {
			f := strings.Fields(la[i])
			if len(f) > 0 {
				l := f[0]
				if j := strings.IndexAny(l, "[="); j >= 0 {
					l = l[:j]
				}
				return l
			}
		}
	}
	return "length"
}

func taskClass(t drive.CTask) string {
	if t.Writer != "" {
		return t.Kind + "/" + t.Writer
	}
	return t.Kind
}

// runScheduled runs one part A case (explicit picks or a policy) and checks oracles O and I.
func (s concurrent) runScheduled(c *Ctx, cs concCase, pick func(step int, runnable []int, last int) int, solo []string) (picks []int, switches int) {
	w := drive.BuildIonWorld(cs.World)
	// The reference observations come from a twin world, so that observing does not itself warm up whatever the
	// shared objects initialise lazily before the tasks get to them.
	twin := drive.BuildIonWorld(cs.World)
	before := twin.Digest()
	quick := twin.QuickDigest()
	outs := make([]string, len(cs.Tasks))
	sched := &sim.Sched{Pick: pick}
	digestFail := ""
	sched.AtYield = func(step, task int, seam string) {
		c.Steps++
		if digestFail == "" && !cs.NoYieldDigest && (step < 3000 || step%32 == 0) {
			if q := w.QuickDigest(); q != quick {
				digestFail = fmt.Sprintf("after step %d (task %d %s at %s): quick digest %q, was %q", step, task, taskClass(cs.Tasks[task]), seam, trunc(q, 300), trunc(quick, 300))
			}
		}
	}
	fns := make([]func(func(string)), len(cs.Tasks))
	for i := range cs.Tasks {
		i := i
		fns[i] = func(yield func(string)) { outs[i] = drive.RunCTask(w, cs.Tasks[i], yield) }
	}
	panics := sched.Run(fns)
	for i, p := range panics {
		if p != nil {
			outs[i] += fmt.Sprintf("\nHARNESS-LEVEL PANIC %v", p)
		}
	}
	after := w.Digest()
	cs.Picks = sched.Picks
	for i := range outs {
		if outs[i] != solo[i] {
			c.Report("C18", "C18.O", "C18.O/"+taskClass(cs.Tasks[i]), fmt.Sprintf("task %d (%s) output differs from its solo baseline under schedule %s (%d picks, %d switches): %s", i, taskClass(cs.Tasks[i]), cs.Policy, len(sched.Picks), sched.Switches, firstDiff(outs[i], solo[i])), cs)
		}
	}
	if digestFail != "" {
		c.Report("C18", "C18.I", "C18.I/quick", "shared-object observation changed while tasks were parked: "+digestFail, cs)
	} else if after != before {
		c.Report("C18", "C18.I", "C18.I/"+digestLabel(after, before), "shared-object digest changed across the run: "+firstDiff(after, before), cs)
	}
	return sched.Picks, sched.Switches
}

func hashConc(cs concCase, picks []int) uint64 {
	h := uint64(1469598103934665603)
	for _, t := range cs.Tasks {
		for _, b := range []byte(t.Kind + t.Writer) {
			h = (h ^ uint64(b)) * 1099511628211
		}
		h = (h ^ t.ValSeed ^ uint64(len(t.Data))<<20 ^ uint64(len(t.Ops))) * 1099511628211
		for _, b := range t.Data {
			h = (h ^ uint64(b)) * 1099511628211
		}
	}
	for _, p := range picks {
		h = (h ^ uint64(p+1)) * 1099511628211
	}
	return h
}

// runFree runs one part B case: tasks start together behind a barrier and are joined, nothing else orders them.
func (s concurrent) runFree(c *Ctx, cs concCase, soloFn func() []string) {
	reps := cs.Reps
	if reps < 1 {
		reps = 1
	}
	// The free runs come first and the solo baseline afterwards: whatever ion-go initialises lazily (per type, per
	// table, per catalog, per process) is still cold when the tasks meet, which is when such state is written.
	var solo []string
	type repOut struct {
		outs          []string
		before, after string
	}
	var all []repOut
	for rep := 0; rep < reps; rep++ {
		w := drive.BuildIonWorld(cs.World)
		before := drive.BuildIonWorld(cs.World).Digest() // from a twin: observing must not warm up the shared objects
		outs := make([]string, len(cs.Tasks))
		var wg sync.WaitGroup
		start := make(chan struct{})
		for i := range cs.Tasks {
			wg.Add(1)
			go func(i int) {
				defer wg.Done()
				<-start
				outs[i] = drive.RunCTask(w, cs.Tasks[i], nil)
			}(i)
		}
		close(start)
		wg.Wait()
		after := w.Digest()
		c.Count("free.task-set-runs", 1)
		c.Steps += int64(len(cs.Tasks))
		all = append(all, repOut{outs, before, after})
	}
	solo = soloFn()
	if pristineIndex(c.CurIndex) || cs.Pristine {
		var got [][]string
		for _, ro := range all {
			got = append(got, ro.outs)
		}
		got = append(got, solo)
		pcs := cs
		pcs.Pristine = true
		s.checkPristine(c, pcs, got, "run free with the other tasks (or alone afterwards in the same process)")
	}
	for _, ro := range all {
		outs, before, after := ro.outs, ro.before, ro.after
		for i := range outs {
			if outs[i] != solo[i] {
				c.Report("C18", "C18.O", "C18.O/"+taskClass(cs.Tasks[i])+"/free", fmt.Sprintf("task %d (%s) output differs from its solo baseline when run free with %d other tasks: %s", i, taskClass(cs.Tasks[i]), len(cs.Tasks)-1, firstDiff(outs[i], solo[i])), cs)
			}
		}
		if after != before {
			c.Report("C18", "C18.I", "C18.I/"+digestLabel(after, before)+"/free", "shared-object digest changed across a free run: "+firstDiff(after, before), cs)
		}
	}
}

func (s concurrent) Run(c *Ctx, i int) {
	cs := concGen(c.Seed, i)
	if FreeMode() && concFirstFreeIndex {
		concFirstFreeIndex = false
		cs = concBurst(c.Seed, i)
		cs.Burst = true
		c.Count("free.cold-start-bursts", 1)
	}
	defer rememberConc(cs)
	for _, t := range cs.Tasks {
		c.Count("task."+taskClass(t), 1)
	}
	c.Count("tasks.per-set."+fmt.Sprint(len(cs.Tasks)), 1)
	soloFn := func() []string {
		solo := soloOutputs(cs)
		again := soloOutputs(cs)
		for k := range solo {
			if solo[k] != again[k] {
				// the task itself is not a deterministic function of its inputs: a harness defect, never a violation
				panic(fmt.Sprintf("concurrent: task %d (%s) is not deterministic when run alone twice: %s", k, taskClass(cs.Tasks[k]), firstDiff(solo[k], again[k])))
			}
			if strings.Contains(solo[k], "\nPANIC ") {
				c.Count("solo.task-panicked", 1)
			}
		}
		return solo
	}
	if FreeMode() {
		if cs.Burst {
			fmt.Fprintf(os.Stderr, "##INDEX %d burst\n", i)
		} else {
			fmt.Fprintf(os.Stderr, "##INDEX %d\n", i)
		}
		cs.Free = true
		cs.Reps = 3
		c.Ahead(cs)
		s.runFree(c, cs, soloFn)
		c.Count("free.indices", 1)
		c.DistinctU(hashConc(cs, nil))
		return
	}
	solo := soloFn()
	if i < 3 {
		var kinds []string
		for _, t := range cs.Tasks {
			kinds = append(kinds, taskClass(t))
		}
		c.Sample(map[string]interface{}{"index": i, "tasks": kinds, "views": cs.World.Views, "solo_output_0": trunc(solo[0], 300)})
	}
	r := prng.New(prng.Mix(c.Seed, 1818, uint64(i)))
	for q := 0; q < 4; q++ {
		pol := &policyPick{kind: concPolicies[r.Intn(len(concPolicies))], victim: r.Intn(len(cs.Tasks))}
		if q == 0 && i%4 == 0 {
			pol.kind = "sequential"
		}
		pol.entropy = make([]uint32, 509)
		for k := range pol.entropy {
			pol.entropy[k] = uint32(r.Uint64())
		}
		run := cs
		run.Policy = pol.kind
		run.NoYieldDigest = q%2 == 1
		picks, switches := s.runScheduled(c, run, pol.Pick, solo)
		if q == 0 && pristineIndex(i) {
			pcs := run
			pcs.Picks = picks
			pcs.Pristine = true
			s.checkPristine(c, pcs, [][]string{solo}, "run alone in this worker process after other tasks")
		}
		c.Count("sched.runs", 1)
		c.Count("sched.policy."+pol.kind, 1)
		c.Count("sched.picks", int64(len(picks)))
		c.Count("sched.switches", int64(switches))
		if switches > 0 {
			c.DistinctU(hashConc(cs, picks))
		}
	}
}

// SoloMain implements `ionsim solo`: one task, alone, on a fresh world, in a fresh process.
func SoloMain(in io.Reader, out io.Writer) int {
	var req struct {
		World drive.CWorld `json:"world"`
		Task  drive.CTask  `json:"task"`
	}
	if err := json.NewDecoder(in).Decode(&req); err != nil {
		fmt.Fprintln(os.Stderr, "solo:", err)
		return 2
	}
	io.WriteString(out, drive.RunCTask(drive.BuildIonWorld(req.World), req.Task, nil))
	return 0
}

// pristineSolo runs every task of a case alone in its own fresh process: the literal meaning of "the output they
// produce when run alone", free of whatever package-level state earlier tasks of this worker process left behind.
func pristineSolo(cs concCase) ([]string, error) {
	self, err := os.Executable()
	if err != nil {
		return nil, err
	}
	if strings.HasSuffix(self, "-race") {
		// the plain build of the same sources starts a hundred times faster and computes the same outputs
		if plain := strings.TrimSuffix(self, "-race"); fileExists(plain) {
			self = plain
		}
	}
	out := make([]string, len(cs.Tasks))
	for i, t := range cs.Tasks {
		switch t.Kind {
		case "marshal", "encode", "unmarshal", "decode":
		default:
			// tasks that involve no Go types: process-wide registries keyed by type are not in play, and a process
			// start costs about 50 ms here; they keep their in-process baseline
			out[i] = "\x00same-process"
			continue
		}
		req, _ := json.Marshal(map[string]interface{}{"world": cs.World, "task": t})
		cmd := exec.Command(self, "solo")
		cmd.Stdin = bytes.NewReader(req)
		cmd.Env = append(os.Environ(), "GOMAXPROCS=1", "GORACE=halt_on_error=0 atexit_sleep_ms=0")
		var ob, eb bytes.Buffer
		cmd.Stdout = &ob
		cmd.Stderr = &eb
		if err := cmd.Run(); err != nil {
			return nil, fmt.Errorf("solo process for task %d: %v: %s", i, err, trunc(eb.String(), 300))
		}
		out[i] = ob.String()
	}
	return out, nil
}

func fileExists(p string) bool {
	st, err := os.Stat(p)
	return err == nil && !st.IsDir()
}

// pristineEvery: one run index in n also gets pristine (fresh-process) solo baselines.
const pristineEvery = 16

// pristineIndex spreads those indices over the residue classes (workers take indices by i mod W).
func pristineIndex(i int) bool {
	every := pristineEvery
	if os.Getenv("IONSIM_TIER") == "quick" {
		every = 2 * pristineEvery // a process start costs about 50 ms here
	}
	return (i+i/every)%every == 0 && os.Getenv("IONSIM_NO_PRISTINE") == ""
}

func (s concurrent) checkPristine(c *Ctx, cs concCase, got [][]string, where string) {
	pr, err := pristineSolo(cs)
	if err != nil {
		panic("concurrent: " + err.Error()) // infrastructure trouble, never a violation
	}
	c.Count("pristine.indices", 1)
	for _, o := range pr {
		if o != "\x00same-process" {
			c.Count("pristine.solo-processes", 1)
		}
	}
	if cs.Prelude == nil {
		if len(concGoTasks.Tasks) > 0 {
			cs.Prelude = append(cs.Prelude, concGoTasks)
		}
		cs.Prelude = append(cs.Prelude, concHistory...)
	}
	for _, outs := range got {
		for i := range outs {
			if pr[i] != "\x00same-process" && outs[i] != pr[i] {
				c.Report("C18", "C18.O", "C18.O/"+taskClass(cs.Tasks[i])+"/vs-fresh-process", fmt.Sprintf("task %d (%s) %s produced output that differs from what the same task produces alone in a fresh process (state left behind in the process by other tasks): %s", i, taskClass(cs.Tasks[i]), where, firstDiff(outs[i], pr[i])), cs)
			}
		}
	}
}

// ConcCaseJSON regenerates the explicit part B case of a run index (generation does not involve ion-go).
func ConcCaseJSON(seed uint64, i int, burst bool) []byte {
	cs := concGen(seed, i)
	if burst {
		cs = concBurst(seed, i)
		cs.Burst = true
	}
	cs.Free = true
	cs.Reps = 20
	b, _ := json.Marshal(cs)
	return b
}

func (s concurrent) Replay(c *Ctx, caseJSON []byte) error {
	var cs concCase
	if err := json.Unmarshal(caseJSON, &cs); err != nil {
		return err
	}
	if len(cs.Tasks) == 0 {
		var bi struct {
			ByIndex bool   `json:"by_index"`
			Seed    uint64 `json:"seed"`
			Index   int    `json:"index"`
		}
		if json.Unmarshal(caseJSON, &bi) == nil && bi.ByIndex {
			c.Seed = bi.Seed
			s.Run(c, bi.Index)
			return nil
		}
		return fmt.Errorf("not a concurrent case")
	}
	for _, p := range cs.Prelude {
		soloOutputs(p) // what this process ran before the case: its tasks, one after the other
	}
	if cs.Free {
		fmt.Fprintf(os.Stderr, "##INDEX %d\n", 0)
		s.runFree(c, cs, func() []string { return soloOutputs(cs) })
		return nil
	}
	solo := soloOutputs(cs)
	ep := &sim.ExplicitPicks{List: cs.Picks}
	s.runScheduled(c, cs, ep.Pick, solo)
	if cs.Pristine {
		// the process-history clause: run the whole task set once more in this process, then compare each task's
		// in-process solo output with its fresh-process output
		s.checkPristine(c, cs, [][]string{soloOutputs(cs)}, "run alone in this process after the other tasks")
	}
	return nil
}

func (s concurrent) Shrink(caseJSON []byte) [][]byte {
	var cs concCase
	if json.Unmarshal(caseJSON, &cs) != nil || len(cs.Tasks) == 0 {
		return nil
	}
	var out [][]byte
	emit := func(x concCase) {
		if b, err := json.Marshal(x); err == nil {
			out = append(out, b)
		}
	}
	if len(cs.Prelude) > 0 {
		x := cs
		x.Prelude = []concCase{}
		emit(x)
		for d := range cs.Prelude {
			y := cs
			y.Prelude = append(append([]concCase{}, cs.Prelude[:d]...), cs.Prelude[d+1:]...)
			emit(y)
		}
		for d, p := range cs.Prelude {
			if len(p.Tasks) > 8 {
				// long histories: halves first
				for _, half := range [][]drive.CTask{p.Tasks[:len(p.Tasks)/2], p.Tasks[len(p.Tasks)/2:]} {
					y := cs
					y.Prelude = append([]concCase{}, cs.Prelude...)
					q := p
					q.Tasks = append([]drive.CTask{}, half...)
					y.Prelude[d] = q
					emit(y)
				}
				continue
			}
			for t := range p.Tasks {
				if len(p.Tasks) > 1 {
					y := cs
					y.Prelude = append([]concCase{}, cs.Prelude...)
					q := p
					q.Tasks = append(append([]drive.CTask{}, p.Tasks[:t]...), p.Tasks[t+1:]...)
					y.Prelude[d] = q
					emit(y)
				}
			}
		}
	}
	// drop one task (and its picks, renumbering the rest)
	if len(cs.Tasks) > 1 {
		for d := range cs.Tasks {
			x := cs
			x.Tasks = append(append([]drive.CTask(nil), cs.Tasks[:d]...), cs.Tasks[d+1:]...)
			x.Picks = nil
			for _, p := range cs.Picks {
				switch {
				case p < d:
					x.Picks = append(x.Picks, p)
				case p > d:
					x.Picks = append(x.Picks, p-1)
				}
			}
			emit(x)
		}
	}
	// simpler schedules
	if len(cs.Picks) > 0 {
		x := cs
		x.Picks = nil
		x.Policy = "sequential"
		emit(x)
		x = cs
		x.Picks = cs.Picks[:len(cs.Picks)/2]
		emit(x)
	}
	if len(cs.World.Views) > 0 {
		x := cs
		x.World.Views = nil
		emit(x)
	}
	// shorter task bodies
	for ti, t := range cs.Tasks {
		if len(t.TOps) > 1 {
			for d := range t.TOps {
				x := cs
				x.Tasks = append([]drive.CTask(nil), cs.Tasks...)
				nt := t
				nt.TOps = append(append([]drive.CTableOp(nil), t.TOps[:d]...), t.TOps[d+1:]...)
				x.Tasks[ti] = nt
				emit(x)
			}
		}
		if t.Count > 1 {
			x := cs
			x.Tasks = append([]drive.CTask(nil), cs.Tasks...)
			nt := t
			nt.Count = 1
			x.Tasks[ti] = nt
			emit(x)
		}
		if len(t.Imports) > 0 {
			x := cs
			x.Tasks = append([]drive.CTask(nil), cs.Tasks...)
			nt := t
			nt.Imports = t.Imports[:len(t.Imports)-1]
			x.Tasks[ti] = nt
			emit(x)
		}
	}
	return out
}

// Command probe runs a full traversal over inputs given as arguments (prefix hex: for hex) — developer aid.
package main

import (
	"encoding/hex"
	"fmt"
	"os"
	"strings"

	"ionsim/drive"
	"ionsim/sim"
)

func main() {
	for _, in := range os.Args[1:] {
		data := []byte(in)
		if strings.HasPrefix(in, "hex:") {
			data, _ = hex.DecodeString(in[4:])
		}
		oc := drive.RunRead(drive.ReadCase{Data: data, Plan: sim.ReadPlan{}, Prog: drive.Full})
		fmt.Printf("%q\n", in)
		for _, l := range oc.Lines {
			fmt.Println("   ", l)
		}
		fmt.Printf("   err=%q at=%s panic=%q\n   ref: %s\n", oc.Err, oc.ErrAt, oc.Panic, refVerdict(data))
	}
}

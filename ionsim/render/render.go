// Package render holds independent, specification-derived printers of model values: text with seeded
// spelling choices and binary with seeded encoding choices. Each also emits a byte map: role / depth for
// every output byte, and a list of structured sites used to aim faults. No code is shared with ion-go.
package render

import "ionsim/model"

type Role uint8

const (
	RWS Role = iota
	RLineComment
	RBlockComment
	RToken    // unquoted scalar token: number, keyword, identifier, timestamp
	RQuoted   // short string or quoted symbol, quotes included
	RLong     // long string segment, quotes included
	RLob      // {{ ... }} including braces
	RPunct    // [ ] { } ( ) ,
	RAnnotSep // ::
	RFieldSep // :
	// binary
	RTag
	RLen
	RPayload
	RFieldID
	RAnnotLen
	RAnnotID
	RBVM
	RNop
)

// Mark describes one output byte.
type Mark struct {
	Role  Role
	Depth uint8 // containers open before this byte
	Cont  bool  // this byte continues a token/construct started by an earlier byte
	Top   bool  // binary: first byte of a top-level item
}

// Site is a structured position used to aim faults and corruptions.
type Site struct {
	Kind  string // see the renderers
	Off   int
	Len   int
	Depth int
	Aux   int64
}

// Out is a rendering.
type Out struct {
	Bytes []byte
	Map   []Mark
	Sites []Site
}

// Item is one top-level item of a document.
type Item struct {
	BVM bool
	V   *model.Value
}

// Values wraps plain values as items.
func Values(vs []*model.Value) []Item {
	out := make([]Item, len(vs))
	for i, v := range vs {
		out[i] = Item{V: v}
	}
	return out
}

type buf struct {
	b []byte
	m []Mark
	s []Site
}

func (x *buf) put(role Role, depth int, bs ...byte) {
	for i, c := range bs {
		x.b = append(x.b, c)
		x.m = append(x.m, Mark{Role: role, Depth: uint8(depth), Cont: i > 0})
	}
}

// putc appends bytes that all continue the current construct.
func (x *buf) putc(role Role, depth int, bs ...byte) {
	for _, c := range bs {
		x.b = append(x.b, c)
		x.m = append(x.m, Mark{Role: role, Depth: uint8(depth), Cont: true})
	}
}

func (x *buf) site(kind string, off, ln, depth int, aux int64) {
	x.s = append(x.s, Site{Kind: kind, Off: off, Len: ln, Depth: depth, Aux: aux})
}

func (x *buf) add(y *buf) {
	base := len(x.b)
	x.b = append(x.b, y.b...)
	x.m = append(x.m, y.m...)
	for _, s := range y.s {
		s.Off += base
		x.s = append(x.s, s)
	}
}

func (x *buf) out() *Out { return &Out{Bytes: x.b, Map: x.m, Sites: x.s} }

package ref

// bin.go: an independent decoder for the Ion 1.0 binary format, written from the specification.
// It shares no code with ion-go. All unexported identifiers are prefixed with b / bin to stay clear
// of the text decoder living in the same package.

import (
	"fmt"
	"math"
	"math/big"
	"unicode/utf8"

	"ionsim/model"
)

// bMaxDepth bounds container nesting so that recursion can never exhaust the goroutine stack
// (a stack overflow is fatal and cannot be recovered).
const bMaxDepth = 2000

// bMaxFracDigits bounds the number of fractional-second digits the decoder is willing to model.
const bMaxFracDigits = 40

const (
	bRuleTruncated = "bin.truncated"
	bRuleOverrun   = "bin.length-overruns-container"
	bRuleSubfield  = "bin.subfield-overruns-value"
)

var bKinds = [...]model.Kind{
	model.Null, model.Bool, model.Int, model.Int, model.Float, model.Decimal, model.Timestamp,
	model.Symbol, model.String, model.Clob, model.Blob, model.List, model.Sexp, model.Struct,
}

type binDecoder struct {
	data []byte
	ctx  *model.Context
	opt  Options
	res  *Result
}

// DecodeBinary decodes a complete Ion 1.0 binary stream. It returns the user values (version markers and
// local symbol tables are consumed and applied to the symbol context; they never appear in Values),
// or a classified *Error for the first specification violation.
func DecodeBinary(data []byte, opt Options) (res *Result, err *Error) {
	defer func() {
		if r := recover(); r != nil {
			res = nil
			err = &Error{Rule: "internal.panic", Unsure: true, Detail: fmt.Sprint(r)}
		}
	}()
	d := &binDecoder{data: data, ctx: model.NewContext(), opt: opt, res: &Result{}}
	if e := d.run(); e != nil {
		return nil, e
	}
	return d.res, nil
}

func bErr(rule string, pos int, format string, args ...interface{}) *Error {
	return &Error{Rule: rule, Pos: pos, Detail: fmt.Sprintf(format, args...)}
}

func bUnsure(rule string, pos int, format string, args ...interface{}) *Error {
	return &Error{Rule: rule, Pos: pos, Unsure: true, Detail: fmt.Sprintf(format, args...)}
}

// run walks the top level of the stream.
func (d *binDecoder) run() *Error {
	n := len(d.data)
	if n == 0 {
		return bErr("bin.no-leading-bvm", 0, "empty stream")
	}
	if d.data[0] != 0xE0 {
		return bErr("bin.no-leading-bvm", 0, "stream starts with %02X", d.data[0])
	}
	pos := 0
	for pos < n {
		if d.data[pos] == 0xE0 {
			next, e := d.bvm(pos)
			if e != nil {
				return e
			}
			d.ctx.Reset()
			pos = next
			continue
		}
		start := pos
		v, nop, next, e := d.value(pos, n, bRuleTruncated, 0, false)
		if e != nil {
			return e
		}
		pos = next
		if nop {
			continue
		}
		if v.Kind == model.Struct && v.IsNull && len(v.Annots) > 0 && v.Annots[0].HasText && v.Annots[0].Text == "$ion_symbol_table" {
			return bUnsure("sym.null-lst", start, "null.struct annotated $ion_symbol_table")
		}
		if model.IsLST(v) {
			decl := model.DeclFromStruct(v)
			if err := d.ctx.Apply(decl, d.opt.Catalog); err != nil {
				return bErr("sym.import-no-max-id", start, "%v", err)
			}
			continue
		}
		if v.Kind == model.Symbol && !v.IsNull && len(v.Annots) == 0 && v.Sym != nil && v.Sym.HasText && v.Sym.Text == "$ion_1_0" {
			// The specification is explicit for text (it is a version marker); implementations differ on
			// whether the same symbol value in binary is a system value.
			return bUnsure("bin.toplevel-ion-1-0-symbol", start, "top-level unannotated symbol $ion_1_0 in binary")
		}
		d.res.Values = append(d.res.Values, v)
		d.res.MaxIDs = append(d.res.MaxIDs, d.ctx.MaxID())
		if d.opt.KeepContexts {
			d.res.Contexts = append(d.res.Contexts, append([]model.Slot{}, d.ctx.Slots...))
		}
	}
	return nil
}

// bvm checks a version marker starting at pos (data[pos] == E0) and returns the offset after it.
func (d *binDecoder) bvm(pos int) (int, *Error) {
	n := len(d.data)
	if pos+4 > n {
		if pos == 0 {
			return 0, bErr("bin.no-leading-bvm", 0, "stream shorter than a version marker")
		}
		return 0, bErr(bRuleTruncated, n, "version marker cut off")
	}
	if d.data[pos+3] != 0xEA {
		if pos == 0 {
			return 0, bErr("bin.no-leading-bvm", 0, "malformed version marker % X", d.data[pos:pos+4])
		}
		return 0, bErr("bin.bad-version", pos, "malformed version marker % X", d.data[pos:pos+4])
	}
	if d.data[pos+1] != 0x01 || d.data[pos+2] != 0x00 {
		return 0, bErr("bin.bad-version", pos, "version %d.%d", d.data[pos+1], d.data[pos+2])
	}
	return pos + 4, nil
}

// varUInt reads a VarUInt in data[pos:limit]. Running into limit yields overRule.
func (d *binDecoder) varUInt(pos, limit int, overRule string) (int64, int, *Error) {
	start := pos
	var v int64
	for {
		if pos >= limit || pos >= len(d.data) {
			return 0, pos, bErr(overRule, start, "VarUInt starting at %d not terminated before %d", start, pos)
		}
		b := d.data[pos]
		pos++
		if v > (math.MaxInt64 >> 7) {
			return 0, pos, bUnsure("bin.varuint-too-large", start, "VarUInt exceeds 63 bits")
		}
		v = v<<7 | int64(b&0x7F)
		if b&0x80 != 0 {
			return v, pos, nil
		}
	}
}

// varInt reads a VarInt in data[pos:limit] as magnitude and sign (so negative zero is visible).
func (d *binDecoder) varInt(pos, limit int, overRule string) (int64, bool, int, *Error) {
	start := pos
	if pos >= limit || pos >= len(d.data) {
		return 0, false, pos, bErr(overRule, pos, "VarInt missing")
	}
	b := d.data[pos]
	pos++
	neg := b&0x40 != 0
	v := int64(b & 0x3F)
	for b&0x80 == 0 {
		if pos >= limit || pos >= len(d.data) {
			return 0, false, pos, bErr(overRule, start, "VarInt starting at %d not terminated before %d", start, pos)
		}
		b = d.data[pos]
		pos++
		if v > (math.MaxInt64 >> 7) {
			return 0, false, pos, bUnsure("bin.varuint-too-large", start, "VarInt exceeds 63 bits")
		}
		v = v<<7 | int64(b&0x7F)
	}
	return v, neg, pos, nil
}

// bIntField interprets octets as an Int subfield: sign bit plus big-endian magnitude.
func bIntField(b []byte) (*big.Int, bool) {
	if len(b) == 0 {
		return new(big.Int), false
	}
	c := append([]byte{}, b...)
	neg := c[0]&0x80 != 0
	c[0] &= 0x7F
	return new(big.Int).SetBytes(c), neg
}

// value decodes the value whose type descriptor is at pos and which must end at or before limit.
// overRule is the rule reported when the value's own header or length does not fit before limit.
// wrapped is true when the value is the content of an annotation wrapper.
// It returns nop=true (and a nil value) for NOP padding.
func (d *binDecoder) value(pos, limit int, overRule string, depth int, wrapped bool) (*model.Value, bool, int, *Error) {
	v, nop, next, e := d.value0(pos, limit, overRule, depth, wrapped)
	if e != nil && e.In == 0 {
		e.In = pos // the innermost value that was being decoded when the rule was violated
	}
	return v, nop, next, e
}

func (d *binDecoder) value0(pos, limit int, overRule string, depth int, wrapped bool) (*model.Value, bool, int, *Error) {
	if limit > len(d.data) {
		limit = len(d.data)
	}
	if pos < 0 || pos >= limit {
		return nil, false, pos, bErr(overRule, pos, "type descriptor missing")
	}
	start := pos
	td := d.data[pos]
	t := int(td >> 4)
	l := int(td & 0x0F)
	pos++

	if t == 15 {
		return nil, false, pos, bErr("bin.reserved-type", start, "type code 15")
	}
	if t == 14 {
		if l == 0 {
			return nil, false, pos, bErr("bin.bvm-in-container", start, "E0 below top level")
		}
		if l == 15 {
			return nil, false, pos, bErr("bin.annot-null", start, "annotation wrapper with L=15")
		}
		if wrapped {
			return nil, false, pos, bErr("bin.annot-wraps-annot", start, "annotation wrapper inside annotation wrapper")
		}
	}
	if l == 15 {
		return model.NewNull(bKinds[t]), false, pos, nil
	}
	if t == 1 {
		switch l {
		case 0:
			return model.NewBool(false), false, pos, nil
		case 1:
			return model.NewBool(true), false, pos, nil
		}
		return nil, false, pos, bErr("bin.bool-bad-length", start, "bool with L=%d", l)
	}
	if t == 4 && l != 0 && l != 4 && l != 8 && l != 14 {
		return nil, false, pos, bErr("bin.float-bad-length", start, "float with L=%d", l)
	}

	length := int64(l)
	ordered := false
	if l == 14 || (t == 13 && l == 1) {
		var e *Error
		length, pos, e = d.varUInt(pos, limit, overRule)
		if e != nil {
			return nil, false, pos, e
		}
		if t == 13 && l == 1 {
			ordered = true
			if length == 0 {
				return nil, false, pos, bErr("bin.ordered-struct-empty", start, "struct with L=1 and length 0")
			}
		}
	}
	if t == 4 && l == 14 {
		// a float whose length is spelled with the VarUInt form: a length other than 0, 4 or 8 is certainly invalid; 0, 4 or
		// 8 spelled this way is a non-minimal encoding the specification does not clearly rule out, so no verdict
		if length != 0 && length != 4 && length != 8 {
			return nil, false, pos, bErr("bin.float-bad-length", start, "float of length %d", length)
		}
		return nil, false, pos, bUnsure("bin.float-varuint-length", start, "float of length %d spelled with L=14", length)
	}
	if length > int64(limit-pos) {
		return nil, false, pos, bErr(overRule, start, "value of length %d at %d extends past %d", length, start, limit)
	}
	body := pos
	end := pos + int(length)

	switch t {
	case 0:
		if wrapped {
			return nil, false, end, bErr("bin.annot-wraps-nop", start, "annotation wrapper around NOP padding")
		}
		return nil, true, end, nil

	case 2, 3:
		mag := new(big.Int).SetBytes(d.data[body:end])
		if t == 3 {
			if mag.Sign() == 0 {
				return nil, false, end, bErr("bin.negative-zero-int", start, "negative int with zero magnitude")
			}
			mag.Neg(mag)
		}
		return &model.Value{Kind: model.Int, Int: mag}, false, end, nil

	case 4:
		switch length {
		case 0:
			return model.NewFloat(0), false, end, nil
		case 4:
			var u uint32
			for _, b := range d.data[body:end] {
				u = u<<8 | uint32(b)
			}
			return model.NewFloat(float64(math.Float32frombits(u))), false, end, nil
		default:
			var u uint64
			for _, b := range d.data[body:end] {
				u = u<<8 | uint64(b)
			}
			return &model.Value{Kind: model.Float, Bits: u}, false, end, nil
		}

	case 5:
		v, e := d.decimal(body, end)
		return v, false, end, e

	case 6:
		v, e := d.timestamp(start, body, end)
		return v, false, end, e

	case 7:
		if length > 8 {
			return nil, false, end, bUnsure("bin.symbol-id-too-large", start, "symbol ID of %d octets", length)
		}
		var u uint64
		for _, b := range d.data[body:end] {
			u = u<<8 | uint64(b)
		}
		if u > math.MaxInt64 {
			return nil, false, end, bUnsure("bin.symbol-id-too-large", start, "symbol ID %d", u)
		}
		sym, ok := d.ctx.Resolve(int64(u))
		if !ok {
			return nil, false, end, bErr("bin.symbol-id-out-of-range", start, "symbol ID %d, max_id %d", u, d.ctx.MaxID())
		}
		return model.NewSymbol(sym), false, end, nil

	case 8:
		if !utf8.Valid(d.data[body:end]) {
			return nil, false, end, bErr("bin.string-invalid-utf8", start, "string is not valid UTF-8")
		}
		return model.NewString(string(d.data[body:end])), false, end, nil

	case 9:
		return model.NewLob(model.Clob, d.data[body:end]), false, end, nil

	case 10:
		return model.NewLob(model.Blob, d.data[body:end]), false, end, nil

	case 11, 12:
		if depth >= bMaxDepth {
			return nil, false, end, bUnsure("bin.depth-limit", start, "nesting deeper than %d", bMaxDepth)
		}
		v := &model.Value{Kind: bKinds[t]}
		p := body
		for p < end {
			kid, nop, next, e := d.value(p, end, bRuleOverrun, depth+1, false)
			if e != nil {
				return nil, false, next, e
			}
			p = next
			if !nop {
				v.Kids = append(v.Kids, kid)
			}
		}
		return v, false, end, nil

	case 13:
		if depth >= bMaxDepth {
			return nil, false, end, bUnsure("bin.depth-limit", start, "nesting deeper than %d", bMaxDepth)
		}
		v, e := d.structBody(start, body, end, ordered, depth)
		return v, false, end, e

	case 14:
		v, e := d.wrapper(start, body, end, depth)
		return v, false, end, e
	}
	return nil, false, end, bUnsure("internal.unreachable", start, "type %d", t)
}

func (d *binDecoder) structBody(start, body, end int, ordered bool, depth int) (*model.Value, *Error) {
	v := &model.Value{Kind: model.Struct}
	p := body
	lastID := int64(-1)
	unsortedAt := -1
	for p < end {
		fpos := p
		id, np, e := d.varUInt(p, end, bRuleOverrun)
		if e != nil {
			return nil, e
		}
		p = np
		if p >= end {
			return nil, bErr(bRuleOverrun, p, "field ID at %d has no value inside the struct", fpos)
		}
		kid, nop, next, e := d.value(p, end, bRuleOverrun, depth+1, false)
		if e != nil {
			return nil, e
		}
		p = next
		if nop {
			continue
		}
		sym, ok := d.ctx.Resolve(id)
		if !ok {
			return nil, bErr("bin.field-id-out-of-range", fpos, "field ID %d, max_id %d", id, d.ctx.MaxID())
		}
		if ordered {
			if id < lastID && unsortedAt < 0 {
				unsortedAt = fpos
			}
			lastID = id
		}
		kid.Field = &sym
		v.Kids = append(v.Kids, kid)
	}
	if unsortedAt >= 0 {
		return nil, bUnsure("bin.ordered-struct-unsorted", unsortedAt, "struct at %d declares sorted fields but is not sorted", start)
	}
	return v, nil
}

func (d *binDecoder) wrapper(start, body, end int, depth int) (*model.Value, *Error) {
	if end-body < 3 {
		return nil, bErr("bin.annot-too-short", start, "annotation wrapper of length %d", end-body)
	}
	alen, p, e := d.varUInt(body, end, "bin.annot-length-mismatch")
	if e != nil {
		return nil, e
	}
	if alen == 0 {
		return nil, bErr("bin.annot-empty", body, "annot_length is zero")
	}
	if alen > int64(end-p) {
		return nil, bErr("bin.annot-length-mismatch", body, "annot_length %d exceeds the wrapper", alen)
	}
	if alen == int64(end-p) {
		return nil, bErr("bin.annot-no-value", end, "annotations fill the whole wrapper")
	}
	aend := p + int(alen)
	var annots []model.Sym
	for p < aend {
		apos := p
		id, np, e := d.varUInt(p, aend, "bin.annot-length-mismatch")
		if e != nil {
			return nil, e
		}
		p = np
		sym, ok := d.ctx.Resolve(id)
		if !ok {
			return nil, bErr("bin.annot-id-out-of-range", apos, "annotation ID %d, max_id %d", id, d.ctx.MaxID())
		}
		annots = append(annots, sym)
	}
	v, nop, next, e := d.value(p, end, "bin.annot-value-length-mismatch", depth, true)
	if e != nil {
		return nil, e
	}
	if nop || v == nil {
		return nil, bErr("bin.annot-wraps-nop", p, "annotation wrapper around NOP padding")
	}
	if next != end {
		return nil, bErr("bin.annot-value-length-mismatch", p, "wrapped value ends at %d, wrapper at %d", next, end)
	}
	v.Annots = annots
	return v, nil
}

func (d *binDecoder) decimal(body, end int) (*model.Value, *Error) {
	if body == end {
		return model.NewDec(new(big.Int), 0, false), nil
	}
	mag, neg, p, e := d.varInt(body, end, bRuleSubfield)
	if e != nil {
		return nil, e
	}
	if neg {
		mag = -mag
	}
	if mag < math.MinInt32 || mag > math.MaxInt32 {
		return nil, bUnsure("bin.decimal-exponent-range", body, "exponent %d outside int32", mag)
	}
	coef, cneg := bIntField(d.data[p:end])
	if coef.Sign() == 0 {
		return model.NewDec(coef, int32(mag), cneg), nil
	}
	if cneg {
		coef.Neg(coef)
	}
	return model.NewDec(coef, int32(mag), false), nil
}

func (d *binDecoder) timestamp(start, body, end int) (*model.Value, *Error) {
	if end-body < 2 {
		return nil, bErr("bin.ts-too-short", start, "timestamp of length %d", end-body)
	}
	p := body
	offMag, offNeg, np, e := d.varInt(p, end, bRuleSubfield)
	if e != nil {
		return nil, e
	}
	p = np
	unknown := offNeg && offMag == 0
	if offMag >= 24*60 {
		return nil, bUnsure("bin.ts-offset-range", body, "offset magnitude %d minutes", offMag)
	}
	off := int(offMag)
	if offNeg {
		off = -off
	}

	field := func(name string, lo, hi int64) (int, *Error) {
		fp := p
		v, np, e := d.varUInt(p, end, bRuleSubfield)
		if e != nil {
			return 0, e
		}
		p = np
		if v < lo || v > hi {
			return 0, bErr("bin.ts-bad-field", fp, "%s %d outside %d..%d", name, v, lo, hi)
		}
		return int(v), nil
	}

	ts := model.TS{Prec: model.Year}
	if ts.Year, e = field("year", 1, 9999); e != nil {
		return nil, e
	}
	if p < end {
		ts.Prec = model.Month
		if ts.Month, e = field("month", 1, 12); e != nil {
			return nil, e
		}
	}
	if p < end {
		ts.Prec = model.Day
		if ts.Day, e = field("day", 1, int64(model.DaysIn(ts.Year, ts.Month))); e != nil {
			return nil, e
		}
	}
	if p < end {
		if ts.Hour, e = field("hour", 0, 23); e != nil {
			return nil, e
		}
		if p >= end {
			return nil, bErr("bin.ts-hour-without-minute", start, "timestamp ends after the hour")
		}
		ts.Prec = model.Minute
		if ts.Minute, e = field("minute", 0, 59); e != nil {
			return nil, e
		}
	}
	if p < end {
		ts.Prec = model.Second
		if ts.Second, e = field("second", 0, 59); e != nil {
			return nil, e
		}
	}
	if p < end {
		fpos := p
		expMag, expNeg, np, e := d.varInt(p, end, bRuleSubfield)
		if e != nil {
			return nil, e
		}
		p = np
		coef, cneg := bIntField(d.data[p:end])
		p = end
		switch {
		case cneg && coef.Sign() == 0:
			return nil, bUnsure("bin.ts-fraction-negzero", fpos, "fraction coefficient is negative zero")
		case !expNeg || expMag == 0:
			if coef.Sign() != 0 {
				return nil, bUnsure("bin.ts-fraction-nonneg-exp", fpos, "fraction %vd%d", coef, expMag)
			}
			// zero with a non-negative exponent: no fractional digits, precision stays Second
		case cneg:
			return nil, bErr("bin.ts-fraction-range", fpos, "negative fraction")
		case expMag > bMaxFracDigits:
			return nil, bUnsure("bin.ts-fraction-too-long", fpos, "%d fractional digits", expMag)
		default:
			digits := coef.String()
			if coef.Sign() == 0 {
				digits = ""
			}
			n := int(expMag)
			if len(digits) > n {
				return nil, bErr("bin.ts-fraction-range", fpos, "fraction %sd-%d is not below 1", digits, n)
			}
			pad := make([]byte, n-len(digits))
			for i := range pad {
				pad[i] = '0'
			}
			ts.Prec = model.Fraction
			ts.FracDigits = n
			ts.Frac = string(pad) + digits
		}
	}

	if ts.Prec < model.Minute || unknown {
		ts.Unknown = true
		ts.Offset = 0
		return model.NewTS(ts), nil
	}
	ts.Offset = off
	ts = ts.Shift(off)
	if ts.Year < 1 || ts.Year > 9999 {
		return nil, bUnsure("bin.ts-local-year-range", start, "local year %d", ts.Year)
	}
	return model.NewTS(ts), nil
}

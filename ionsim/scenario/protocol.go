package scenario

import (
	"bytes"
	"encoding/json"
	"fmt"
	"math"
	"math/big"
	"strings"

	"ionsim/drive"
	"ionsim/gen"
	"ionsim/model"
	"ionsim/prng"
	"ionsim/ref"
	"ionsim/sim"
)

// protocol decides C12: any Writer call sequence ends in a correct stream or an error.
type protocol struct{}

func init() { Register(protocol{}) }

func (protocol) Property() string { return "C12" }
func (protocol) Name() string     { return "protocol" }
func (protocol) Level() string    { return "exploration" }
func (protocol) Indices(tier string) int {
	if tier == "thorough" {
		return 1500000
	}
	return 120000
}
func (protocol) Rule() string {
	return "Per run index: one seeded Writer call sequence of 1..40 calls over the full Writer interface (swarm: random subset of op kinds, " +
		"1 run in 12 dives 30..80 containers deep first, 2 in 12 write string / lob / big-integer payloads of 64..400 bytes; misuse rate 0/5/30 %: value in a struct without field name, End of the wrong container, End/Finish with pending annotations or " +
		"field name, FieldName outside a struct or twice, Finish inside a container, writing after Finish, several batches, symbol tokens " +
		"with text only / system SID only / both / neither, text outside a fixed table), always ending in Finish; run on each of the " +
		"writer configurations (text, pretty, binary with growing table with and without shared imports, binary with a fixed table), " +
		"fault-free twice (determinism) and then with one transient or sticky sink failure at a seeded Write call. Checked call by call " +
		"against a protocol automaton, and when the final Finish returns nil the sink bytes are decoded by the independent reference " +
		"decoders and compared with the automaton's value tree. Distinct by hash of (configuration, call kinds and payload sizes, fault); " +
		"non-trivial = at least two calls besides the final Finish. In addition, the first 22621 run indices enumerate every call " +
		"sequence of length <= 4 over a 12-call alphabet (int, symbol, string, field name, annotation, Begin/End of struct, list, sexp, " +
		"Finish) followed by Finish, on six fixed configurations, fault-free twice and with a transient failure of each single Write call " +
		"(counter short-sequences.enumerated; complete in both tiers)."
}
func (protocol) Assumptions() []string {
	return []string{
		"ref/bin and ref/text decoders (independent, spec-derived; calibrated against the independent renderers)",
		"the writer protocol automaton (ionsim model): only calls that returned nil have an effect",
		"program points the API documentation leaves open (pending annotations at End/Finish, FieldName twice, nil-returning End of the wrong kind or FieldName at top level, nil Finish inside a container, WriteSymbolFromString of $n-shaped text) mark the run ambiguous: held to P, S, V1, D only",
		"Go map iteration order is not seeded; determinism is checked by running every program twice in one process",
	}
}
func (protocol) Components() map[string]string {
	return map[string]string{
		"ion package (text and binary Writers, symbol table builder)": "real code from /repo working tree",
		"io.Writer under the Writer":                                  "stub: sim.Sink (records calls, one injected failure)",
		"decoders judging the output":                                 "ionsim ref/bin, ref/text (no ion-go code)",
		"protocol automaton":                                          "ionsim model",
	}
}

type protoCase struct {
	Cfg   drive.WriterCfg `json:"cfg"`
	Ops   []drive.WOp     `json:"ops"`
	WPlan sim.WritePlan   `json:"wplan"`
	// Prelude: the writer programs this worker process ran just before (other Writers, possibly with sink faults). They
	// are part of the case because a Writer must not depend on what other Writers did: replay runs them first, and
	// minimisation drops them when the violation does not need them.
	Prelude []protoCase `json:"prelude,omitempty"`
}

// protoHistory holds the last few programs run by this process (see protoCase.Prelude).
var protoHistory []protoCase

const protoHistoryLen = 6

// ----------------------------------------------------------------------------------------------------------
// generator

var protoSymPool = []string{"a", "b", "name", "foo", "$ion", "symbols", "max_id", "null", "true", "nan", "$5", "$0", "$10", "", "+", "a b", "it's", "é", "😀", "$ion_symbol_table", "x\ny", "//", "_1"}

type protoGen struct {
	r       *prng.Rand
	enabled map[string]bool
	misuse  int // per mille
	stack   []model.Kind
	needFld bool // in a struct and no field name pending
	pendFld bool
	pendAnn bool
	o       gen.Opts
	// maxDepth bounds nesting (5 normally; 33..80 in "deep" runs, which dive first); bulky makes string, lob and
	// big integer payloads 64..400 bytes long so that several long values meet in one buffered batch.
	maxDepth int
	deep     bool
	bulky    bool
	// edges: the program starts with containers whose encoded body lengths sit exactly on the boundaries of the
	// binary length encodings (13/14, 127/128, 16383/16384), nested and annotated.
	edges bool
	// wide: the program first interns well over 128 distinct symbols (so that later symbol IDs need two VarUInt
	// octets) and draws its symbols from that larger pool.
	wide bool
}

func (g *protoGen) inStruct() bool {
	return len(g.stack) > 0 && g.stack[len(g.stack)-1] == model.Struct
}

func (g *protoGen) sym() (*model.Sym, string) {
	r := g.r
	switch r.Intn(12) {
	case 0:
		s := model.ID(int64(r.Intn(10)))
		return &s, "sid"
	case 1:
		id := r.Range(1, 9)
		s := model.Sym{Text: model.SystemSymbols[id-1], HasText: true, SID: int64(id)}
		return &s, "both"
	case 2:
		if g.misuse > 0 && r.Chance(1, 3) {
			return &model.Sym{}, "none"
		}
	}
	if g.wide && r.Chance(3, 4) {
		s := model.T(fmt.Sprintf("w%d", r.Intn(220)))
		return &s, ""
	}
	if r.Chance(1, 8) {
		// a token as a caller gets it back from a Reader over this Writer's earlier output: text and local ID together
		// (the ID is learned at run time from what the Writer has emitted so far; without earlier output it is text only)
		s := model.T([]string{"a", "b", "name", "foo", "it's", "é"}[r.Intn(6)])
		return &s, "learned"
	}
	s := model.T(protoSymPool[r.Intn(len(protoSymPool))])
	return &s, ""
}

var scalarOps = []string{"null", "nulltype", "bool", "int", "uint", "bigint", "float", "decimal", "timestamp", "symbol", "symstr", "string", "clob", "blob"}

func (g *protoGen) scalar() drive.WOp {
	r := g.r
	var cands []string
	for _, o := range scalarOps {
		if g.enabled[o] {
			cands = append(cands, o)
		}
	}
	if len(cands) == 0 {
		cands = []string{"int"}
	}
	op := cands[r.Intn(len(cands))]
	w := drive.WOp{Op: op}
	if g.bulky && r.Chance(2, 3) {
		n := r.Range(64, 400)
		b := make([]byte, n)
		for i := range b {
			b[i] = byte('a' + r.Intn(26))
			if r.Chance(1, 16) {
				// characters the text writers must escape, some with two-character and some with four-character escapes
				b[i] = []byte{0x01, 0x02, 0x1f, 0x0e, '\n', '\t', '"', '\'', '\\', 0x7f, 0x00, 0x0b}[r.Intn(12)]
			}
		}
		switch r.Intn(4) {
		case 0:
			return drive.WOp{Op: "string", V: model.NewString(string(b))}
		case 1:
			return drive.WOp{Op: "clob", V: model.NewLob(model.Clob, b)}
		case 2:
			for i := range b {
				b[i] = byte(r.Intn(256))
			}
			return drive.WOp{Op: "blob", V: model.NewLob(model.Blob, b)}
		default:
			for i := range b {
				b[i] = byte(r.Intn(256))
			}
			v := new(big.Int).SetBytes(b[:r.Range(64, len(b))])
			if r.Bool() {
				v.Neg(v)
			}
			return drive.WOp{Op: "bigint", V: model.NewBig(v)}
		}
	}
	switch op {
	case "nulltype":
		w.T = model.Kind(r.Intn(13))
	case "bool":
		w.V = model.NewBool(r.Bool())
	case "int":
		w.V = model.NewInt(int64(r.Uint64()) >> uint(r.Intn(64)))
		if r.Chance(1, 8) {
			w.V = model.NewInt([]int64{0, -1, 1, math.MaxInt64, math.MinInt64, math.MinInt64 + 1, 127, 128, 255, 256, -128, -129}[r.Intn(12)])
		}
	case "uint":
		w.V = model.NewBig(new(big.Int).SetUint64(r.Uint64() >> uint(r.Intn(64))))
		if r.Chance(1, 8) {
			w.V = model.NewBig(new(big.Int).SetUint64([]uint64{0, 1, math.MaxUint64, 1 << 63, 1<<63 - 1, 255, 256}[r.Intn(7)]))
		}
	case "bigint":
		w.V = model.NewBig(gen.BigInt(r))
	case "float":
		w.V = model.NewFloat(gen.Float(r))
	case "decimal":
		d := gen.Dec(r)
		w.V = &model.Value{Kind: model.Decimal, Dec: d}
	case "timestamp":
		w.V = &model.Value{Kind: model.Timestamp, TS: gen.TS(r, g.o)}
	case "symbol":
		w.Sym, w.Tok = g.sym()
	case "symstr":
		w.Str = protoSymPool[r.Intn(len(protoSymPool))]
		if w.Str == "$10" {
			// WriteSymbolFromString("$10") would be a reference to an ID no stream here defines (caller
			// garbage under the reading that $n-shaped strings are ID references): not generated.
			w.Str = "$5"
		}
	case "string":
		w.V = model.NewString(gen.Str(r, g.o, 6))
	case "clob":
		w.V = model.NewLob(model.Clob, gen.Bytes(r, g.o))
	case "blob":
		w.V = model.NewLob(model.Blob, gen.Bytes(r, g.o))
	}
	return w
}

var containerNames = map[model.Kind]string{model.List: "list", model.Sexp: "sexp", model.Struct: "struct"}

func (g *protoGen) program() []drive.WOp {
	r := g.r
	n := r.Range(1, 40)
	if r.Chance(1, 3) {
		n = r.Range(1, 6)
	}
	if g.deep {
		n = 3*g.maxDepth + r.Range(0, 30)
	}
	var ops []drive.WOp
	if g.wide {
		// a list of 130..200 distinct symbols first
		ops = append(ops, drive.WOp{Op: "beginlist"})
		for k, cnt := 0, r.Range(130, 200); k < cnt; k++ {
			ops = append(ops, drive.WOp{Op: "symstr", Str: fmt.Sprintf("w%d", k)})
		}
		ops = append(ops, drive.WOp{Op: "endlist"})
		n += len(ops)
	}
	if g.edges {
		// string header: 1 octet up to 13 bytes, 2 octets up to 127, 3 octets up to 16383
		k0 := []int{0, 0, 2, 2, 2, 4, 6}[r.Intn(7)]
		for _, body := range []int{13, 14, 127, 128, 129, 16383, 16384, 16385}[k0 : k0+2] {
			n := body - 1
			if body > 14 {
				n = body - 2
			}
			if body > 129 {
				n = body - 3
			}
			b := make([]byte, n)
			for i := range b {
				b[i] = byte('a' + i%26)
			}
			kind := []string{"list", "sexp"}[r.Intn(2)]
			if r.Bool() {
				ops = append(ops, drive.WOp{Op: "annot", Sym: &model.Sym{Text: "a", HasText: true}})
			}
			ops = append(ops, drive.WOp{Op: "begin" + kind}, drive.WOp{Op: "begin" + kind},
				drive.WOp{Op: "string", V: model.NewString(string(b))}, drive.WOp{Op: "end" + kind},
				drive.WOp{Op: "int", V: model.NewInt(int64(body))}, drive.WOp{Op: "end" + kind})
		}
		n += len(ops)
	}
	miss := func() bool { return g.misuse > 0 && r.Intn(1000) < g.misuse }
	for len(ops) < n {
		// misuse ops
		if miss() {
			switch r.Intn(8) {
			case 0: // value in a struct without a field name / field name outside a struct
				if g.inStruct() {
					ops = append(ops, g.scalar())
				} else {
					s, t := g.sym()
					ops = append(ops, drive.WOp{Op: "field", Sym: s, Tok: t})
				}
			case 1: // End of the wrong container (or at top level)
				k := []model.Kind{model.List, model.Sexp, model.Struct}[r.Intn(3)]
				ops = append(ops, drive.WOp{Op: "end" + containerNames[k]})
			case 2: // End / Finish with pending annotations
				s, t := g.sym()
				ops = append(ops, drive.WOp{Op: "annot", Sym: s, Tok: t})
				if len(g.stack) > 0 {
					ops = append(ops, drive.WOp{Op: "end" + containerNames[g.stack[len(g.stack)-1]]})
					g.stack = g.stack[:len(g.stack)-1]
				} else {
					ops = append(ops, drive.WOp{Op: "finish"})
				}
			case 3: // FieldName twice
				if g.inStruct() {
					s, t := g.sym()
					ops = append(ops, drive.WOp{Op: "field", Sym: s, Tok: t})
					s2, t2 := g.sym()
					ops = append(ops, drive.WOp{Op: "field", Sym: s2, Tok: t2})
					g.pendFld = true
				}
			case 4: // Finish inside a container, then continue
				ops = append(ops, drive.WOp{Op: "finish"})
			case 5: // token with neither text nor SID
				ops = append(ops, drive.WOp{Op: "symbol", Sym: &model.Sym{}, Tok: "none"})
			case 6:
				ops = append(ops, drive.WOp{Op: "annot", Sym: &model.Sym{}, Tok: "none"})
				ops = append(ops, g.scalar())
			default: // End with a pending field name
				if g.inStruct() {
					s, t := g.sym()
					ops = append(ops, drive.WOp{Op: "field", Sym: s, Tok: t})
					ops = append(ops, drive.WOp{Op: "endstruct"})
					g.stack = g.stack[:len(g.stack)-1]
				}
			}
			continue
		}
		// legal ops
		if g.inStruct() && !g.pendFld {
			diving := g.deep && len(g.stack) < g.maxDepth && len(ops) < 2*g.maxDepth
			if len(g.stack) > 0 && !diving && r.Chance(1, 4) {
				ops = append(ops, drive.WOp{Op: "endstruct"})
				g.stack = g.stack[:len(g.stack)-1]
				continue
			}
			s, t := g.sym()
			ops = append(ops, drive.WOp{Op: "field", Sym: s, Tok: t})
			g.pendFld = true
			continue
		}
		x := r.Intn(20)
		if g.deep && len(g.stack) < g.maxDepth && len(ops) < 2*g.maxDepth && r.Chance(3, 4) {
			x = 3 // dive
		}
		switch {
		case x < 3 && g.enabled["annot"]:
			if r.Bool() {
				s, t := g.sym()
				ops = append(ops, drive.WOp{Op: "annot", Sym: s, Tok: t})
			} else {
				var ss []model.Sym
				for j := r.Range(0, 3); j > 0; j-- {
					s := model.T(protoSymPool[r.Intn(len(protoSymPool))])
					ss = append(ss, s)
				}
				ops = append(ops, drive.WOp{Op: "annots", Syms: ss})
			}
		case x < 6 && (g.enabled["container"] || g.deep) && len(g.stack) < g.maxDepth:
			k := []model.Kind{model.List, model.Sexp, model.Struct}[r.Intn(3)]
			ops = append(ops, drive.WOp{Op: "begin" + containerNames[k]})
			g.stack = append(g.stack, k)
			g.pendFld = false
		case x < 9 && len(g.stack) > 0:
			ops = append(ops, drive.WOp{Op: "end" + containerNames[g.stack[len(g.stack)-1]]})
			g.stack = g.stack[:len(g.stack)-1]
			g.pendFld = false
		case x == 9 && len(g.stack) == 0 && g.enabled["batches"]:
			ops = append(ops, drive.WOp{Op: "finish"})
		case x == 10:
			ops = append(ops, drive.WOp{Op: "isinstruct"})
		default:
			ops = append(ops, g.scalar())
			g.pendFld = false
		}
	}
	// close containers most of the time (sometimes all but the outermost one or two: Finish inside a container
	// is refused, and what was written so far must then not count as a finished stream), then the final Finish
	remain := len(g.stack)
	switch x := r.Intn(10); {
	case x < 7:
		remain = 0
	case x == 7:
		remain = 1
	case x == 8:
		remain = r.Range(0, 2)
	}
	if remain < len(g.stack) || remain == 0 {
		for len(g.stack) > remain {
			if g.inStruct() && g.pendFld {
				ops = append(ops, g.scalar())
				g.pendFld = false
			}
			ops = append(ops, drive.WOp{Op: "end" + containerNames[g.stack[len(g.stack)-1]]})
			g.stack = g.stack[:len(g.stack)-1]
		}
	}
	ops = append(ops, drive.WOp{Op: "finish"})
	return ops
}

func newProtoGen(r *prng.Rand) *protoGen {
	g := &protoGen{r: r, enabled: map[string]bool{}, o: gen.DefaultOpts()}
	g.o.MaxFracDig = 9
	all := append(append([]string(nil), scalarOps...), "annot", "container", "batches")
	if r.Chance(1, 3) {
		for _, o := range all {
			g.enabled[o] = true
		}
	} else {
		for _, o := range all {
			g.enabled[o] = r.Chance(1, 2)
		}
		g.enabled["container"] = g.enabled["container"] || r.Bool()
	}
	g.misuse = []int{0, 0, 50, 300}[r.Intn(4)]
	g.maxDepth = 5
	switch r.Intn(12) {
	case 0:
		g.deep = true
		g.maxDepth = r.Range(30, 80)
		g.misuse = []int{0, 0, 20}[r.Intn(3)]
	case 1, 2:
		g.bulky = true
	case 4:
		g.edges = true
	case 3:
		g.wide = true
		g.enabled["annot"], g.enabled["container"], g.enabled["symbol"] = true, true, true
	}
	return g
}

var sharedPool = []model.Shared{
	{Name: "sh", Version: 1, Symbols: []string{"a", "foo", "$5"}},
	{Name: "sh", Version: 2, Symbols: []string{"a", "foo", "$5", "é", ""}},
	{Name: "other", Version: 1, Symbols: []string{"b", "name", "a b"}},
}

func protoConfigs(r *prng.Rand, wide bool) []drive.WriterCfg {
	cfgs := []drive.WriterCfg{{Kind: "text"}, {Kind: "pretty"}, {Kind: "binary"}}
	sh := []model.Shared{sharedPool[r.Intn(2)]}
	if r.Bool() {
		sh = append(sh, sharedPool[2])
	}
	cfgs = append(cfgs, drive.WriterCfg{Kind: "binary", Shared: sh})
	// fixed table: some of the pool, possibly with imports
	var syms []string
	for _, s := range protoSymPool {
		if r.Chance(2, 3) {
			syms = append(syms, s)
		}
	}
	if wide {
		for k := 0; k < 220; k++ {
			syms = append(syms, fmt.Sprintf("w%d", k))
		}
	}
	fixed := drive.WriterCfg{Kind: "binary-lst", LSTSymbols: syms}
	if r.Chance(1, 3) {
		fixed.Shared = sh
	}
	cfgs = append(cfgs, fixed)
	if r.Chance(1, 4) {
		cfgs = append(cfgs, drive.WriterCfg{Kind: "text", Shared: sh}, drive.WriterCfg{Kind: "text", Quiet: true})
	}
	return cfgs
}

// ----------------------------------------------------------------------------------------------------------
// automaton

type frame struct {
	v *model.Value
}

type automaton struct {
	top       []*model.Value
	stack     []*model.Value
	field     *model.Sym
	annots    []model.Sym
	poisoned  bool
	ambiguous []string
	avoided   bool
	unrep     []string // nil-returning calls whose value cannot be represented in any stream
	firstErr  int
}

func (a *automaton) amb(why string) { a.ambiguous = append(a.ambiguous, why) }

func sysSym(sid int64) model.Sym {
	if sid >= 1 && sid <= 9 {
		return model.T(model.SystemSymbols[sid-1])
	}
	return model.ID(sid)
}

// tokenSym returns the symbol a token denotes; ok=false if it denotes nothing (neither text nor SID).
func tokenSym(s *model.Sym, tok string) (model.Sym, bool) {
	switch tok {
	case "none":
		return model.Sym{}, false
	case "sid":
		return sysSym(s.SID), true
	case "both", "learned":
		return model.T(s.Text), true
	}
	if s == nil {
		return model.Sym{}, false
	}
	if !s.HasText {
		return sysSym(s.SID), true
	}
	return model.T(s.Text), true
}

func looksLikeSID(s string) bool {
	if len(s) < 2 || s[0] != '$' {
		return false
	}
	for i := 1; i < len(s); i++ {
		if s[i] < '0' || s[i] > '9' {
			return false
		}
	}
	return true
}

func (a *automaton) inStruct() bool {
	return len(a.stack) > 0 && a.stack[len(a.stack)-1].Kind == model.Struct
}

// place attaches pending field name and annotations to v and appends it to the current container.
func (a *automaton) place(v *model.Value, idx int, op string) {
	v.Annots = a.annots
	a.annots = nil
	for _, an := range v.Annots {
		if !an.HasText && an.SID == -1 {
			a.unrep = append(a.unrep, fmt.Sprintf("call %d (%s) returned nil for a value annotated with a token with neither text nor SID", idx, op))
		}
	}
	if a.field != nil && !a.field.HasText && a.field.SID == -1 && a.inStruct() {
		a.unrep = append(a.unrep, fmt.Sprintf("call %d (%s) returned nil for a field named by a token with neither text nor SID", idx, op))
	}
	if len(a.stack) == 0 {
		// corners the property does not pin down (DESIGN appendix A, avoided): a top-level value that reads
		// as a version marker or as a local symbol table
		if v.Kind == model.Symbol && len(v.Annots) == 0 && v.Sym != nil && v.Sym.HasText && strings.HasPrefix(v.Sym.Text, "$ion_") {
			a.amb("top-level symbol shaped like a version marker")
		}
		if v.Kind == model.Struct && len(v.Annots) > 0 && v.Annots[0].HasText && v.Annots[0].Text == "$ion_symbol_table" {
			a.amb("top-level struct annotated $ion_symbol_table")
			// the caller itself wrote something readers take for a symbol table: what the rest of the
			// stream then denotes is not the Writer's doing (avoided corner): V1 is not applied either
			a.avoided = true
		}
	}
	if a.inStruct() {
		if a.field == nil {
			a.unrep = append(a.unrep, fmt.Sprintf("call %d (%s) returned nil for a struct member without a field name", idx, op))
		} else {
			f := *a.field
			v.Field = &f
		}
	} else if a.field != nil {
		a.amb("field name pending outside a struct")
	}
	a.field = nil
	if len(a.stack) > 0 {
		p := a.stack[len(a.stack)-1]
		p.Kids = append(p.Kids, v)
	} else {
		a.top = append(a.top, v)
	}
}

func (a *automaton) step(idx int, op drive.WOp, errStr string) {
	if errStr != "" {
		if op.Op != "finish" && !a.poisoned {
			a.poisoned = true
			a.firstErr = idx
		}
		return
	}
	switch op.Op {
	case "isinstruct":
	case "field":
		s, ok := tokenSym(op.Sym, op.Tok)
		if !a.inStruct() {
			a.amb("FieldName returned nil outside a struct")
		}
		if a.field != nil {
			a.amb("FieldName twice")
		}
		if !ok {
			s = model.ID(-1)
		}
		a.field = &s
	case "annot":
		s, ok := tokenSym(op.Sym, op.Tok)
		if !ok {
			s = model.ID(-1) // becomes unrepresentable only if a value call later accepts it
		}
		a.annots = append(a.annots, s)
	case "annots":
		for i := range op.Syms {
			s, _ := tokenSym(&op.Syms[i], op.Tok)
			a.annots = append(a.annots, s)
		}
	case "beginlist", "beginsexp", "beginstruct":
		k := map[string]model.Kind{"beginlist": model.List, "beginsexp": model.Sexp, "beginstruct": model.Struct}[op.Op]
		v := &model.Value{Kind: k}
		a.place(v, idx, op.Op)
		a.stack = append(a.stack, v)
	case "endlist", "endsexp", "endstruct":
		k := map[string]model.Kind{"endlist": model.List, "endsexp": model.Sexp, "endstruct": model.Struct}[op.Op]
		if len(a.stack) == 0 || a.stack[len(a.stack)-1].Kind != k {
			a.amb("End of the wrong kind returned nil")
			return
		}
		if len(a.annots) > 0 || a.field != nil {
			a.amb("pending annotations or field name at End")
			a.annots, a.field = nil, nil
		}
		a.stack = a.stack[:len(a.stack)-1]
	case "finish":
		if len(a.stack) > 0 {
			a.amb("Finish returned nil inside a container")
		}
		if len(a.annots) > 0 || a.field != nil {
			a.amb("pending annotations or field name at Finish")
			a.annots, a.field = nil, nil
		}
	case "null":
		a.place(model.NewNull(model.Null), idx, op.Op)
	case "nulltype":
		a.place(model.NewNull(op.T), idx, op.Op)
	case "symbol":
		s, ok := tokenSym(op.Sym, op.Tok)
		if !ok {
			a.unrep = append(a.unrep, fmt.Sprintf("call %d (symbol) accepted a token with neither text nor SID", idx))
			s = model.ID(-1)
		}
		a.place(model.NewSymbol(s), idx, op.Op)
	case "symstr":
		if looksLikeSID(op.Str) {
			a.amb("WriteSymbolFromString of $n-shaped text")
		}
		a.place(model.NewSymbol(model.T(op.Str)), idx, op.Op)
	default:
		v := op.V.Clone()
		a.place(v, idx, op.Op)
	}
}

// ----------------------------------------------------------------------------------------------------------
// scenario

// shortAlphabet is the reduced call alphabet whose sequences of length <= 4 are enumerated completely (one per run
// index, on every fixed configuration, fault-free and with a transient failure of every single write call).
var shortAlphabet = []drive.WOp{
	{Op: "int", V: model.NewInt(7)},
	{Op: "symstr", Str: "a"},
	{Op: "string", V: model.NewString("s")},
	{Op: "field", Sym: &model.Sym{Text: "a", HasText: true}},
	{Op: "annot", Sym: &model.Sym{Text: "b", HasText: true}},
	{Op: "beginstruct"},
	{Op: "endstruct"},
	{Op: "beginlist"},
	{Op: "endlist"},
	{Op: "beginsexp"},
	{Op: "endsexp"},
	{Op: "finish"},
}

// ShortSequences is the number of sequences of length <= 4 over shortAlphabet.
const ShortSequences = 1 + 12 + 144 + 1728 + 20736

func shortSequence(j int) []drive.WOp {
	n := len(shortAlphabet)
	length, base := 0, 1
	for j >= base {
		j -= base
		base *= n
		length++
	}
	ops := make([]drive.WOp, length)
	for k := length - 1; k >= 0; k-- {
		ops[k] = shortAlphabet[j%n]
		j /= n
	}
	return append(ops, drive.WOp{Op: "finish"})
}

var shortConfigs = []drive.WriterCfg{{Kind: "text"}, {Kind: "pretty"}, {Kind: "binary"}, {Kind: "binary", Shared: sharedPool[:1]},
	{Kind: "binary-lst", LSTSymbols: []string{"a", "b", "s"}}, {Kind: "binary-lst", LSTSymbols: []string{"b"}}}

func (s protocol) runShort(c *Ctx, j int) {
	ops := shortSequence(j)
	c.Count("short-sequences.enumerated", 1)
	for _, cfg := range shortConfigs {
		base := s.runOne(c, cfg, ops, sim.WritePlan{}, true)
		if base == nil {
			continue
		}
		for w := 0; w < base.Sink.Calls && w < 40; w++ {
			s.runOne(c, cfg, ops, sim.WritePlan{Fault: &sim.WriteFault{Call: w}}, false)
		}
	}
}

func (s protocol) Run(c *Ctx, i int) {
	if i < ShortSequences {
		s.runShort(c, i)
	}
	r := prng.New(prng.Mix(c.Seed, 12, uint64(i)))
	g := newProtoGen(r.Fork())
	ops := g.program()
	cfgs := protoConfigs(r.Fork(), g.wide)
	fr := r.Fork()
	if i < 3 {
		c.Sample(map[string]interface{}{"index": i, "ops": opNames(ops), "configs": len(cfgs)})
	}
	depth, maxDepth := 0, 0
	for _, o := range ops {
		if strings.HasPrefix(o.Op, "begin") {
			depth++
			if depth > maxDepth {
				maxDepth = depth
			}
		} else if strings.HasPrefix(o.Op, "end") && depth > 0 {
			depth--
		}
	}
	switch {
	case maxDepth > 64:
		c.Count("proto.programs-nesting-deeper-than-64", 1)
	case maxDepth > 32:
		c.Count("proto.programs-nesting-33..64", 1)
	}
	if g.bulky {
		c.Count("proto.programs-bulky", 1)
	}
	for _, cfg := range cfgs {
		base := s.runOne(c, cfg, ops, sim.WritePlan{}, true)
		if base == nil {
			continue
		}
		W := base.Sink.Calls
		if W == 0 {
			continue
		}
		// one sink failure at a seeded write call, transient and sticky
		for q := 0; q < 2; q++ {
			plan := sim.WritePlan{Fault: &sim.WriteFault{Call: fr.Intn(W), Sticky: q == 1}}
			if fr.Chance(1, 3) {
				plan.Fault.Short = 1 + fr.Intn(3)
			}
			s.runOne(c, cfg, ops, plan, false)
		}
	}
}

func opNames(ops []drive.WOp) []string {
	out := make([]string, len(ops))
	for i, o := range ops {
		out[i] = o.Op
		if o.Tok != "" {
			out[i] += ":" + o.Tok
		}
	}
	return out
}

func cfgName(cfg drive.WriterCfg) string {
	n := cfg.Kind
	if len(cfg.Shared) > 0 {
		n += "+shared"
	}
	return n
}

// family is the coarse writer kind used in signatures.
func family(cfg drive.WriterCfg) string {
	if cfg.Kind == "pretty" {
		return "text"
	}
	return cfg.Kind
}

func hashOps(cfg drive.WriterCfg, ops []drive.WOp, plan sim.WritePlan) uint64 {
	h := uint64(1469598103934665603)
	mix := func(s string) {
		for i := 0; i < len(s); i++ {
			h = (h ^ uint64(s[i])) * 1099511628211
		}
		h = (h ^ 0xff) * 1099511628211
	}
	mix(cfgName(cfg))
	for _, o := range ops {
		mix(o.Op)
		mix(o.Tok)
		if o.Sym != nil {
			mix(o.Sym.Text)
		}
		if o.V != nil {
			mix(fmt.Sprint(len(o.V.Str), len(o.V.Bytes), o.V.Kind))
		}
	}
	if plan.Fault != nil {
		mix(fmt.Sprint(plan.Fault.Call, plan.Fault.Sticky, plan.Fault.Short))
	}
	return h
}

func (s protocol) runOne(c *Ctx, cfg drive.WriterCfg, ops []drive.WOp, plan sim.WritePlan, twice bool) *drive.WOutcome {
	curPrelude = append([]protoCase(nil), protoHistory...)
	defer func() {
		protoHistory = append(protoHistory, protoCase{Cfg: cfg, Ops: ops, WPlan: plan})
		if len(protoHistory) > protoHistoryLen {
			protoHistory = protoHistory[len(protoHistory)-protoHistoryLen:]
		}
	}()
	oc := drive.RunWrite(cfg, ops, plan, false)
	c.Steps += int64(oc.Sink.Calls)
	c.Count("proto.runs", 1)
	if len(ops) >= 3 {
		c.DistinctU(hashOps(cfg, ops, plan))
	}
	if plan.Fault != nil {
		kind := "transient"
		if plan.Fault.Sticky {
			kind = "sticky"
		}
		if oc.Sink.FaultFired() {
			c.Count("fault.write-"+kind+".fired", 1)
		} else {
			c.Count("fault.write-"+kind+".armed-not-fired", 1)
		}
	}
	var second *drive.WOutcome
	if twice {
		second = drive.RunWrite(cfg, ops, plan, false)
		c.Count("proto.runs", 1)
	}
	s.check(c, cfg, ops, plan, oc, second)
	if oc.Panic != "" {
		return nil
	}
	return oc
}

// curPrelude is the history in front of the run being checked.
var curPrelude []protoCase

func (s protocol) check(c *Ctx, cfg drive.WriterCfg, ops []drive.WOp, plan sim.WritePlan, oc, second *drive.WOutcome) {
	cs := protoCase{Cfg: cfg, Ops: ops, WPlan: plan, Prelude: curPrelude}
	name := family(cfg)
	if oc.Panic != "" {
		c.Report("C12", "C12.P", "C12.P/"+name+"/"+ops[oc.PanicAt].Op+"/"+oc.Frame+"/"+drive.PanicClass(oc.Panic), fmt.Sprintf("call %d (%s) panicked: %s", oc.PanicAt, ops[oc.PanicAt].Op, oc.Panic), cs)
		return
	}
	a := &automaton{firstErr: -1}
	for i, op := range ops {
		was := a.poisoned
		a.step(i, op, oc.Errs[i])
		// (S): once a call other than Finish has returned an error, every later call returns an error.
		if was && oc.Errs[i] == "" && op.Op != "isinstruct" {
			c.Report("C12", "C12.S", "C12.S/"+name+"/"+ops[a.firstErr].Op+"/"+errClass(oc.Errs[a.firstErr]), fmt.Sprintf("call %d (%s) returned an error (%q) but later call %d (%s) returned nil", a.firstErr, ops[a.firstErr].Op, oc.Errs[a.firstErr], i, op.Op), cs)
			return
		}
	}
	// (D) determinism
	if second != nil {
		if second.Panic != "" || !bytes.Equal(second.Sink.Accepted, oc.Sink.Accepted) || strings.Join(second.Errs, "\x00") != strings.Join(oc.Errs, "\x00") {
			c.Report("C12", "C12.D", "C12.D/"+name, "the same call sequence on a fresh Writer produced different bytes or a different error pattern", cs)
			return
		}
	}
	last := len(ops) - 1
	if oc.Errs[last] != "" {
		c.Count("proto.final-finish-error", 1)
		return
	}
	c.Count("proto.final-finish-nil", 1)
	if a.avoided {
		c.Count("proto.avoided-corner(V1,V2 not applied)", 1)
		return
	}
	// (V1) the bytes decode under the independent decoder
	cat := &model.Catalog{Tables: sharedPool}
	var res *ref.Result
	var derr *ref.Error
	out := oc.Sink.Accepted
	isBin := strings.HasPrefix(cfg.Kind, "binary")
	if isBin {
		if len(out) == 0 {
			res = &ref.Result{} // nothing was written: an empty stream denotes no values
		} else {
			res, derr = ref.DecodeBinary(out, ref.Options{Catalog: cat})
		}
	} else {
		res, derr = ref.DecodeText(out, ref.Options{Catalog: cat})
	}
	if derr != nil {
		if derr.Unsure {
			c.Count("proto.decoder-unsure(inconclusive)", 1)
			return
		}
		c.Report("C12", "C12.V1", "C12.V1/"+name+"/"+derr.Rule, fmt.Sprintf("final Finish returned nil but the output is not valid Ion: %v; output=%s", derr, showOut(out, isBin)), cs)
		return
	}
	if len(a.unrep) > 0 {
		c.Report("C12", "C12.V2", "C12.V2/"+name+"/unrepresentable/"+unrepClass(a.unrep[0]), "final Finish returned nil although "+a.unrep[0]+"; output="+showOut(out, isBin), cs)
		return
	}
	if len(a.ambiguous) > 0 || len(a.stack) > 0 {
		c.Count("proto.ambiguous(V2 not applied)", 1)
		return
	}
	c.Count("proto.v2-checked", 1)
	if !model.EqualAll(res.Values, a.top) {
		c.Report("C12", "C12.V2", "C12.V2/"+name+"/"+diffClass(res.Values, a.top), fmt.Sprintf("decoded values differ from the calls that succeeded:\n decoded=%v\n expected=%v\n output=%s", trunc(fmt.Sprint(res.Values), 300), trunc(fmt.Sprint(a.top), 300), showOut(out, isBin)), cs)
	}
}

func unrepClass(s string) string {
	switch {
	case strings.Contains(s, "without a field name"):
		return "member-without-field-name"
	case strings.Contains(s, "neither text nor SID"):
		return "token-without-text-or-sid"
	}
	return "other"
}

func showOut(out []byte, isBin bool) string {
	if isBin {
		return trunc(fmt.Sprintf("%x", out), 200)
	}
	return trunc(fmt.Sprintf("%q", out), 200)
}

// diffClass names the first difference between two value lists.
func diffClass(got, want []*model.Value) string {
	if len(got) != len(want) {
		return "count"
	}
	for i := range got {
		if d := diffValue(got[i], want[i]); d != "" {
			return d
		}
	}
	return "?"
}

func diffValue(g, w *model.Value) string {
	if g.Kind != w.Kind || g.IsNull != w.IsNull {
		return "kind(" + w.Kind.String() + ")"
	}
	if len(g.Annots) != len(w.Annots) {
		return "annotations-count"
	}
	for i := range g.Annots {
		if !model.EqualSym(g.Annots[i], w.Annots[i]) {
			return "annotation" + symClass(w.Annots[i])
		}
	}
	if (g.Field == nil) != (w.Field == nil) {
		return "field-presence"
	}
	if g.Field != nil && !model.EqualSym(*g.Field, *w.Field) {
		return "field" + symClass(*w.Field)
	}
	if g.Kind.IsContainer() && !g.IsNull {
		if len(g.Kids) != len(w.Kids) {
			return "children-count"
		}
		for i := range g.Kids {
			if d := diffValue(g.Kids[i], w.Kids[i]); d != "" {
				return d
			}
		}
		return ""
	}
	if !model.Equal(g, w) {
		if w.Kind == model.Symbol && w.Sym != nil {
			return "value(symbol)" + symClass(*w.Sym)
		}
		return "value(" + w.Kind.String() + ")"
	}
	return ""
}

func symClass(s model.Sym) string {
	switch {
	case !s.HasText:
		return "[sid]"
	case looksLikeSID(s.Text):
		return "[$n-text]"
	case s.Text == "":
		return "[empty]"
	}
	return "[text]"
}

func (s protocol) Replay(c *Ctx, caseJSON []byte) error {
	var cs protoCase
	if err := json.Unmarshal(caseJSON, &cs); err != nil {
		return err
	}
	if len(cs.Ops) == 0 {
		return fmt.Errorf("empty program")
	}
	for _, p := range cs.Prelude {
		if len(p.Ops) > 0 {
			drive.RunWrite(p.Cfg, p.Ops, p.WPlan, false)
		}
	}
	curPrelude = cs.Prelude
	oc := drive.RunWrite(cs.Cfg, cs.Ops, cs.WPlan, false)
	second := drive.RunWrite(cs.Cfg, cs.Ops, cs.WPlan, false)
	s.check(c, cs.Cfg, cs.Ops, cs.WPlan, oc, second)
	curPrelude = nil
	return nil
}

func (s protocol) Shrink(caseJSON []byte) [][]byte {
	var cs protoCase
	if json.Unmarshal(caseJSON, &cs) != nil || len(cs.Ops) == 0 {
		return nil
	}
	var out [][]byte
	emit := func(x protoCase) {
		if b, err := json.Marshal(x); err == nil {
			out = append(out, b)
		}
	}
	if len(cs.Prelude) > 0 {
		x := cs
		x.Prelude = nil
		emit(x)
		for d := range cs.Prelude {
			y := cs
			y.Prelude = append(append([]protoCase(nil), cs.Prelude[:d]...), cs.Prelude[d+1:]...)
			emit(y)
		}
	}
	body := cs.Ops[:len(cs.Ops)-1]
	for _, ops := range shrinkOps(body) {
		x := cs
		x.Ops = append(append([]drive.WOp(nil), ops...), drive.WOp{Op: "finish"})
		emit(x)
	}
	if cs.WPlan.Fault != nil {
		x := cs
		x.WPlan = sim.WritePlan{}
		emit(x)
		if cs.WPlan.Fault.Call > 0 {
			for _, nc := range []int{0, cs.WPlan.Fault.Call / 2, cs.WPlan.Fault.Call - 1} {
				y := cs
				f := *cs.WPlan.Fault
				f.Call = nc
				y.WPlan = sim.WritePlan{Fault: &f}
				emit(y)
			}
		}
	}
	if len(cs.Cfg.Shared) > 0 {
		x := cs
		x.Cfg.Shared = nil
		emit(x)
	}
	// simpler symbols
	for i, op := range cs.Ops {
		if op.Sym != nil && op.Sym.HasText && op.Sym.Text != "a" && !looksLikeSID(op.Sym.Text) {
			x := cs
			x.Ops = append([]drive.WOp(nil), cs.Ops...)
			s := model.T("a")
			x.Ops[i].Sym = &s
			emit(x)
		}
	}
	return out
}
